#!/usr/bin/env python3
"""Build seeded/<id>/meta.json from notes.md + result.txt (written by tools/verify_seeded.sh)."""
import json, os, re, sys
root = os.path.join(os.path.dirname(os.path.abspath(__file__)), '..', 'seeded')
for d in sorted(os.listdir(root)):
    p = os.path.join(root, d)
    if not os.path.isdir(p):
        continue
    notes = open(os.path.join(p, 'notes.md')).read() if os.path.exists(os.path.join(p, 'notes.md')) else ''
    res = open(os.path.join(p, 'result.txt')).read() if os.path.exists(os.path.join(p, 'result.txt')) else ''
    m = re.search(r'_(C\d\d)', d)
    prop = m.group(1) if m else None
    checks = {}
    for mm in re.finditer(r'(C\d+):rc=(\d+):((?: ?\d+ \w+;)*)', res):
        checks[mm.group(1)] = {'exit': int(mm.group(2)),
                               'clauses': [c.strip() for c in mm.group(3).split(';') if c.strip()]}
    demo = re.search(r'demo_clean_rc=(\d+) demo_patched_rc=(\d+) tests="([^"]*)"', res)
    meta = {
        'id': d, 'breaks_property': prop,
        'origin': 'independent sub-agent given only the property text and a scratch worktree of /repo',
        'needs_to_manifest': notes.strip()[:1500],
        'confirmed': {
            'demo_exit_on_unchanged_tree': int(demo.group(1)) if demo else None,
            'demo_exit_with_change': int(demo.group(2)) if demo else None,
            'pinned_test_suite_with_change': demo.group(3) if demo else None,
            'how': 'tools/verify_seeded.sh: scratch worktree of /repo HEAD under /tmp, demo.py run before and after `git apply patch.diff`, pinned pytest command, then the listed checks with VERIF_REPO pointing at the patched worktree; worktree removed afterwards'},
        'checks_run_against_it': checks,
        'detected_by': sorted(k for k, v in checks.items() if v['exit'] == 1),
    }
    json.dump(meta, open(os.path.join(p, 'meta.json'), 'w'), indent=1)
    print(d, prop, meta['detected_by'])
