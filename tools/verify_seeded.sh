#!/bin/sh
# tools/verify_seeded.sh <dir with patch.diff demo.py notes.md> <id> <scale> <PROP> [PROP...]
# Confirms a seeded change in a scratch worktree (demo passes clean / fails patched, pinned tests
# still 30 passed), runs the given checks against the patched worktree, stores it as
# /verif/seeded/<id>/ and removes the worktree.
src="$1"; id="$2"; scale="$3"; shift 3
wt=/tmp/sv_$id
rm -rf "$wt"; git -C /repo worktree prune
git -C /repo worktree add -q --detach "$wt" HEAD || exit 3
cp "$src/demo.py" "$wt/demo_seeded.py"
( cd "$wt" && TQDM_DISABLE=1 timeout 300 /venv/bin/python demo_seeded.py >/tmp/sv_$id.clean.log 2>&1 ); rc_clean=$?
( cd "$wt" && git apply "$src/patch.diff" ) || { echo "$id PATCH DOES NOT APPLY"; git -C /repo worktree remove --force "$wt"; exit 3; }
( cd "$wt" && TQDM_DISABLE=1 timeout 300 /venv/bin/python demo_seeded.py >/tmp/sv_$id.patched.log 2>&1 ); rc_patched=$?
tests=$( cd "$wt" && /venv/bin/python -m pytest -q -p no:cacheprovider --timeout=900 --continue-on-collection-errors 2>&1 | tail -1 )
echo "$id demo_clean_rc=$rc_clean demo_patched_rc=$rc_patched tests: $tests"
out=/tmp/sv_out_$id; rm -rf "$out"; mkdir -p "$out/evidence" "$out/replays" "$out/work"
res=""
for p in "$@"; do
  VERIF_REPO="$wt" VERIF_EVIDENCE_DIR="$out/evidence" VERIF_REPLAY_DIR="$out/replays" VERIF_WORK_DIR="$out/work" VERIF_SCALE="$scale" \
    /verif/check "$p" quick > "$out/$p.log" 2>&1
  rc=$?
  cl=$(grep '^VIOLATION' "$out/$p.log" | sed 's/.*replays\///' | cut -d- -f2 | sort | uniq -c | tr -s ' ' | tr '\n' ';')
  echo "  $p rc=$rc clauses:$cl $(grep '^INCONCLUSIVE' "$out/$p.log" | cut -c1-150)"
  res="$res $p:rc=$rc:$cl"
done
mkdir -p /verif/seeded/$id
[ "$src" = "/verif/seeded/$id" ] || cp "$src/patch.diff" "$src/demo.py" /verif/seeded/$id/
[ "$src" != "/verif/seeded/$id" ] && [ -f "$src/notes.md" ] && cp "$src/notes.md" /verif/seeded/$id/
cat > /verif/seeded/$id/result.txt <<EOT
demo_clean_rc=$rc_clean demo_patched_rc=$rc_patched tests="$tests"
checks(scale=$scale):$res
EOT
git -C /repo worktree remove --force "$wt"
rm -rf "$out/work"
