#!/bin/sh
# tools/sweep.sh <tier> <seed> [<seed> ...]   - run every check for each seed; one summary line per run.
# Evidence/replays go to a scratch directory below the current directory (not the committed evidence/).
tier="$1"; shift
here=$(cd "$(dirname "$0")/.." && pwd)
for seed in "$@"; do
  for p in C01 C02 C03 C04 C05 C06 C07 C08 C09 C10 C11 C12 C13 C14 C15 C16 C17 C18 C19; do
    out="$here/.work/sweep_${tier}_$seed"; mkdir -p "$out/evidence" "$out/replays"
    s=$(date +%s)
    VERIF_SEED=$seed VERIF_EVIDENCE_DIR="$out/evidence" VERIF_REPLAY_DIR="$out/replays" "$here/check" $p $tier > "$out/$p.log" 2>&1
    rc=$?
    e=$(date +%s)
    echo "seed=$seed $p $tier rc=$rc $((e-s))s $(grep -E '^(VIOLATION|INCONCLUSIVE)' "$out/$p.log" | head -3 | cut -c1-160 | tr '\n' '|')"
  done
done
