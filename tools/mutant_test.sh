#!/bin/sh
# tools/mutant_test.sh <patch.diff> <scale> <PROP> [PROP...]
# Applies the patch to a scratch worktree of /repo (outside /repo and /verif), runs the pinned
# test suite there, then the given checks (quick) against it; evidence/replays go to a scratch dir.
patch="$1"; scale="$2"; shift 2
tag=$(echo "$patch" | md5sum | cut -c1-8)
wt=/tmp/mt_$tag
rm -rf "$wt"; git -C /repo worktree prune
git -C /repo worktree add -q --detach "$wt" HEAD || exit 3
( cd "$wt" && git apply "$patch" ) || { echo "PATCH DOES NOT APPLY"; git -C /repo worktree remove --force "$wt"; exit 3; }
( cd "$wt" && /venv/bin/python -m pytest -q -p no:cacheprovider --timeout=900 --continue-on-collection-errors 2>&1 | tail -1 )
out=/tmp/mt_out_$tag; rm -rf "$out"; mkdir -p "$out/evidence" "$out/replays" "$out/work"
for p in "$@"; do
  VERIF_REPO="$wt" VERIF_EVIDENCE_DIR="$out/evidence" VERIF_REPLAY_DIR="$out/replays" VERIF_WORK_DIR="$out/work" VERIF_SCALE="$scale" \
    /verif/check "$p" quick > "$out/$p.log" 2>&1
  rc=$?
  echo "$p rc=$rc $(grep -c '^VIOLATION' "$out/$p.log") violation line(s): $(grep '^VIOLATION' "$out/$p.log" | sed 's/.*replays\///' | cut -d- -f2 | sort | uniq -c | tr '\n' ' ')$(grep '^INCONCLUSIVE' "$out/$p.log" | cut -c1-150)"
done
git -C /repo worktree remove --force "$wt"
rm -rf "$out/work"
