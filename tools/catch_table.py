#!/usr/bin/env python3
"""Print the markdown table 'which check catches which seeded change' from seeded/*/meta.json."""
import json, os
root = os.path.join(os.path.dirname(os.path.abspath(__file__)), '..', 'seeded')
print('| seeded change | breaks | needs | checks run -> exit (clauses) | caught by |')
print('|---|---|---|---|---|')
for d in sorted(os.listdir(root)):
    mp = os.path.join(root, d, 'meta.json')
    if not os.path.exists(mp):
        continue
    m = json.load(open(mp))
    needs = ' '.join(m.get('needs_to_manifest', '').split())
    short = m.get('summary') or needs[:140]
    runs = '; '.join('%s -> %d%s' % (k, v['exit'], (' (' + ', '.join(c.split(' ', 1)[-1] for c in v['clauses'][:3]) + ')') if v['clauses'] else '')
                     for k, v in sorted(m['checks_run_against_it'].items()))
    print('| %s | %s | %s | %s | %s |' % (d, m['breaks_property'], short.replace('|', '/'), runs, ', '.join(m['detected_by']) or '**none**'))
