#!/bin/sh
# re-verify every kept seeded change against its own check and related ones (scale as given)
scale=${1:-0.4}
cd /verif
while read id props; do
  [ -z "$id" ] && continue
  tools/verify_seeded.sh /verif/seeded/$id $id $scale $props
done <<EOT
A_C01_1 C01 C02 C09
A_C01_2 C01 C02
A_C02_1 C02
A_C02_2 C02 C04 C09
B_C03_1 C03
B_C03_2 C03
B_C04_1 C04
B_C04_2 C04 C02 C09
C_C05_1 C05 C08
C_C05_2 C05 C08
C_C06_1 C06
C_C06_2 C06 C08
D_C07_1 C07
D_C07_2 C07 C08 C05
D_C08_1 C08
D_C08_2 C08 C05
E_C09_1 C09 C02
E_C09_2 C09
E_C10_1 C10
E_C10_2 C10
F_C11_1 C11 C13
F_C11_2 C11
F_C12_1 C12
F_C12_2 C12
G_C13_1 C13 C11
G_C13_2 C13
G_C14_1 C14
G_C14_2 C14
H_C15_1 C15
H_C15_2 C15
H_C16_1 C16
H_C16_2 C16
I_C17_1 C17
I_C17_2 C17
I_C18_1 C18
I_C18_2 C18
J_C19_1 C19
J_C19_2 C19
J_C19_3 C19
EOT
python3 tools/make_meta.py > /dev/null
