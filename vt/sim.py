"""Build and run one generated case on the real topsim under the monitors."""
import os
import random
import shutil
import traceback

from . import gen, hooks
from .common import REPO, WORK, StepBudgetExceeded, use_repo, canon

_ALGO_CACHE = {}
from .env import ProbedEnvironment

_N = [0]


def _innermost_topsim_frame(exc):
    """Innermost frame inside the repository's topsim package in the exception
    chain (simpy re-creates the exception and chains the original as cause)."""
    root = os.path.join(os.path.abspath(REPO), 'topsim')
    best = None
    seen = set()
    e = exc
    chain = []
    while e is not None and id(e) not in seen:
        seen.add(id(e))
        chain.append(e)
        e = e.__cause__ or e.__context__
    for e in reversed(chain):        # deepest cause first
        tb = e.__traceback__
        frames = traceback.extract_tb(tb) if tb else []
        for fr in frames:
            if os.path.abspath(fr.filename).startswith(root):
                best = fr
        if best is not None:
            break
    if best is None:
        return None
    return {'file': os.path.relpath(best.filename, REPO), 'func': best.name, 'line': best.lineno,
            'text': best.line}


def build(case, d, tr, bound=None, permute_seed=None, shared=None):
    use_repo()
    hooks.install()
    import topsim.core.simulation as S
    from topsim.core.delay import DelayModel
    from topsim.user.telescope import Telescope
    from topsim.user.schedule.batch_allocation import BatchProcessing
    from topsim.user.schedule.queue_allocation import QueueProcessing
    from topsim.user.schedule.dynamic_plan import DynamicSchedulingFromPlan
    from topsim.user.schedule.greedy import GreedySchedulingFromPlan
    from . import userext

    cfg = gen.materialise(case, d)
    prng = random.Random(permute_seed) if permute_seed is not None else None
    env = ProbedEnvironment(hooks=tr, bound=bound, permute_rng=prng)
    tr.env = env
    tr.permuting = prng is not None
    dl = case.get('delays') or {'mode': 'none'}
    extras = dl.get('extras') if dl.get('mode') == 'fixed' else None
    dm = None
    if dl.get('mode') == 'model':
        key = (dl['prob'], dl['dist'], dl['degree'], dl['seed'])
        if shared is not None and shared.get('dm_key') == key:
            dm = shared['dm']
        else:
            dm = DelayModel(dl['prob'], dl['dist'], DelayModel.DelayDegree[dl['degree']],
                            dl['seed'])
            if shared is not None:
                shared['dm_key'], shared['dm'] = key, dm

    def on_plan(observation, plan, clock):
        tr.plans[observation.name] = {'plan': plan, 'clock': clock, 't': env.now,
                                      'task_ids': [t.id for t in plan.tasks]}
        for t in plan.tasks:
            gid = getattr(t, 'graph_id', None)
            if gid is not None:
                tr.tidmap[t.id] = (observation.name, str(gid))
        o = tr.obs.get(observation.name)
        if o is not None:
            o['plan_t'] = env.now

    pairing = case['pairing']
    alg = case.get('alg') or {}
    # An experiment loop creates its algorithm objects once and iterates over configurations:
    # the scheduling-algorithm object is reused by later simulations of this process that ask
    # for the same algorithm with the same parameters.
    akey = (pairing, canon(alg))
    algo = _ALGO_CACHE.get(akey)
    if pairing in ('batch', 'queue'):
        model = userext.InjectingBatchPlanning('batch', dm, extras, on_plan)
        if algo is None and pairing == 'batch':
            split = alg.get('resource_split')
            if split:
                split = {k: tuple(v) for k, v in split.items()}
            algo = BatchProcessing(max_resource_partitions=alg.get('partitions', 1),
                                   min_resources_per_workflow=alg.get('min_resources', 3),
                                   resource_split=split)
        elif algo is None:
            algo = QueueProcessing()
    else:
        model = userext.StaticListPlanning('static', case['static'], dm, extras, on_plan,
                                           est_mode=case.get('static_est', 'duration'))
        if algo is None:
            algo = DynamicSchedulingFromPlan() if pairing == 'dynamic' \
                else GreedySchedulingFromPlan()
    if akey in _ALGO_CACHE:
        tr.cnt['algorithm_object_reused'] += 1
    _ALGO_CACHE[akey] = algo
    adv = case.get('adversary')
    advlog = []
    if adv:
        algo = userext.Adversary(algo, adv['profile'], random.Random(adv['seed']),
                                 adv.get('prob', 0.35), advlog)
    # observe what the algorithm is asked and what it answers (a per-simulation proxy; the
    # algorithm object itself may be shared with other simulations and is left untouched)
    inner_algo = algo
    inner_run = algo.run

    proposed = {}
    prof = set((adv or {}).get('profile') or ())
    skippable = bool(adv) and not case.get('permute') and (
        (pairing == 'queue' and prof <= {'busy', 'dup'}) or
        (pairing == 'batch' and prof <= {'dup'}))

    def run_probe(cluster, clock, workflow_plan, existing_schedule, task_pool):
        n_pool0 = len(task_pool)
        if skippable:
            # a proposal the scheduler skipped (busy or doubly proposed machine) must come
            # back: the task is still unscheduled, so it has to be either in the schedule the
            # scheduler hands to the algorithm or back in the task pool
            try:
                for t in list(proposed.get(workflow_plan.id, ())):
                    if not str(t.task_status).endswith('UNSCHEDULED'):
                        proposed[workflow_plan.id].discard(t)
                        continue
                    tr.cnt['c04_skipped_proposals_followed'] += 1
                    if t not in existing_schedule and t not in task_pool:
                        proposed[workflow_plan.id].discard(t)
                        tr.violate('C04', 'skipped_proposal_lost', task=t.id, t=env.now,
                                   workflow=workflow_plan.id, pairing_family=pairing)
            except Exception:       # an unhashable or foreign task object: nothing to follow
                tr.cnt['c04_follow_unavailable'] += 1
        out = inner_run(cluster=cluster, clock=clock, workflow_plan=workflow_plan,
                        existing_schedule=existing_schedule, task_pool=task_pool)
        try:
            allocs, status, pool = out
            new = [t for t in allocs if t not in existing_schedule]
            if skippable:
                proposed.setdefault(workflow_plan.id, set()).update(allocs)
            if pairing == 'batch':
                offer = len(cluster.get_idle_resources(workflow_plan.id))
            else:
                offer = len(cluster.get_available_resources())
            ready = sum(1 for t in set(pool) | set(new)
                        if str(t.task_status).endswith('UNSCHEDULED'))
            tr.alg_runs.append((env.now, workflow_plan.id, len(new), ready, offer))
            tr.cnt['alg_runs'] += 1
            if ready > max(offer, 0) + len(new) and len(new) > 0:
                tr.cnt['alg_contended_rounds'] += 1
        except Exception:
            pass
        return out
    algo = userext.ProbeAlgo(inner_algo, run_probe)

    sim = S.Simulation(env, cfg, Telescope, planning_model=model, planning_algorithm='batch',
                       scheduling=algo, delay=dm, timestamp=0)
    if case.get('tiering_off'):
        sim.buffer.threshold = 10.0
    tr.attach(sim, env)
    tr.advlog = advlog
    tr.has_adversary = bool(adv)
    return sim, env


def _poke(sim, tr):
    """A second start() on a running simulation must be refused and change nothing."""
    try:
        sim.start()
        tr.violate('C11', 'not_refused', kind='second_start_while_paused')
    except RuntimeError:
        tr.cnt['c11_refused_pokes'] += 1


def run_plain(case, d):
    """Run a case on a plain simpy.Environment with no monitoring (bounded)."""
    import simpy
    from . import hooks as _h
    saved = _h.CUR
    _h.set_trace(None)
    try:
        tr = _h.Trace(gen.spec_of(case))
        sim, env = build(case, d, tr, bound=min(gen.serial_bound(case), 120))
        try:
            sim.start()
        except Exception:
            pass
    finally:
        _h.set_trace(saved)
        shutil.rmtree(d, ignore_errors=True)


def run_case(case, bound=None, schedule=None, keep=False, check_plan=None, workdir=None,
             driver=None, shared=None, interleave=None, poke=False):
    """Run one case.  schedule: None -> start(); or a list [k, u1, u2, ...]
    meaning start(k), resume(u1), ... ; the last element may be 'end' =
    keep resuming one step at a time until is_finished().
    -> (result dict, Trace)"""
    use_repo()
    _N[0] += 1
    # four scratch slots per process: configuration and workflow paths recur with new content,
    # as they do when a user edits and re-runs a configuration in one session
    d = workdir or os.path.join(WORK, 'c%d_%d' % (os.getpid(), _N[0] % 4))
    shutil.rmtree(d, ignore_errors=True)
    spec = gen.spec_of(case)
    tr = hooks.Trace(spec)
    tr.check_plan = check_plan
    res = {'outcome': None, 'T': None, 'exc': None, 'df': None, 'tasks': None, 'events': None}
    hooks.set_trace(tr)
    sim = None
    try:
        sim, env = build(case, d, tr, bound=bound, permute_seed=case.get('permute'),
                         shared=shared)
        try:
            if driver is not None:
                res['driver'] = driver(sim, env, tr)
                res['df'] = sim.monitor.df
                res['tasks'] = sim._generate_final_task_data()
            elif schedule is None:
                out = sim.start()
                res['df'], res['tasks'] = out
            else:
                k = schedule[0]
                sim.start(k)
                if poke:
                    _poke(sim, tr)
                if interleave is not None:
                    # another, unobserved simulation runs to completion in this process while
                    # this one is paused (two live simulations must not share state)
                    hooks.set_trace(None)
                    try:
                        run_plain(interleave, d + '_other')
                    finally:
                        hooks.set_trace(tr)
                for u in schedule[1:]:
                    if u == 'end':
                        while not sim.is_finished():
                            sim.resume(env.now + 1)
                    else:
                        if u > env.now:
                            sim.resume(u)
                            if poke:
                                _poke(sim, tr)
                # no extra collate_events() here: what the user sees after the last resume()
                res['df'] = sim.monitor.df
                res['tasks'] = sim._generate_final_task_data()
            res['events'] = sim.monitor.events
            res['outcome'] = 'completed'
        except StepBudgetExceeded:
            res['outcome'] = 'budget'
            res['df'] = sim.monitor.df
            res['events'] = sim.monitor.events
        except Exception as e:  # the run raised
            res['outcome'] = 'error'
            res['exc'] = {'type': type(e).__name__, 'msg': str(e)[:300],
                          'where': _innermost_topsim_frame(e)}
            res['df'] = sim.monitor.df
            res['events'] = sim.monitor.events
        res['T'] = env.now
        res['n_events'] = env.n_events
        res['n_swaps'] = env.n_swaps
    finally:
        hooks.set_trace(None)
        if not keep:
            shutil.rmtree(d, ignore_errors=True)
    res['sim'] = sim
    return res, tr
