"""Parent process of a check: spawns the workers, merges their shards,
classifies violations against known_findings.json, writes the evidence file
and replay files and decides the exit code.

usage:  python -B -m vt.driver <PROP> <quick|thorough>
        python -B -m vt.driver --replay <file>
exit 0 held on everything explored (KNOWN-FINDING lines possible)
exit 1 VIOLATION property=<id> replay=<path>
exit 2 INCONCLUSIVE property=<id> reason=...
"""
import json
import os
import shutil
import subprocess
import sys
import time
from collections import Counter

from . import campaign, findings
from .common import VERIF, WORK, REPLAYS, EVIDENCE, PYTHON, REPO


def _merge(parts):
    m = {'jobs': 0, 'evaluations': 0, 'hashes': set(), 'nontrivial_hashes': set(),
         'cnt': Counter(), 'events': 0, 'sigs': set(), 'states': 0, 'inconclusive': Counter(),
         'violations': [], 'vcounts': Counter(), 'samples': [], 'outcomes': Counter(),
         'other': Counter(), 'timeouts': 0, 'swaps': 0, 'kinds': Counter(), 'harness_tb': None}
    for p in parts:
        m['jobs'] += p['jobs']
        m['evaluations'] += p['evaluations']
        m['hashes'].update(p['hashes'])
        m['nontrivial_hashes'].update(p['nontrivial_hashes'])
        m['cnt'].update(p['cnt'])
        m['events'] += p['events']
        m['sigs'].update(p['sigs'])
        m['states'] = max(m['states'], p['states'])
        m['inconclusive'].update(p['inconclusive'])
        m['violations'].extend(p['violations'])
        m['vcounts'].update(p['vcounts'])
        m['samples'].extend(p['samples'])
        m['outcomes'].update(p['outcomes'])
        m['other'].update(p['other'])
        m['timeouts'] += p['timeouts']
        m['swaps'] += p.get('swaps', 0)
        m['kinds'].update(p.get('kinds', {}))
        if p.get('harness_tb') and not m['harness_tb']:
            m['harness_tb'] = p['harness_tb']
        for fn, c in (p.get('cover') or {}).items():
            e = m.setdefault('cover', {}).setdefault(fn, {'executed': set(), 'total': set()})
            e['executed'].update(c['executed'])
            e['total'].update(c['total'])
    return m


def run_check(prop, tier, seed, scale=1.0, nworkers=None, quiet=False):
    t0 = time.time()
    nworkers = nworkers or min(16, os.cpu_count() or 4)
    rundir = os.path.join(WORK, 'run_%s_%s_%d' % (prop, tier, os.getpid()))
    shutil.rmtree(rundir, ignore_errors=True)
    os.makedirs(rundir, exist_ok=True)
    env = dict(os.environ)
    env.update({'PYTHONHASHSEED': '0', 'TQDM_DISABLE': '1', 'VERIF_REPO': REPO,
                'PYTHONDONTWRITEBYTECODE': '1', 'PYTHONWARNINGS': 'ignore'})
    procs = []
    for i in range(nworkers):
        out = os.path.join(rundir, 'shard%d.json' % i)
        log = open(os.path.join(rundir, 'shard%d.log' % i), 'w')
        p = subprocess.Popen([PYTHON, '-B', '-W', 'ignore', '-m', 'vt.worker', prop, tier,
                              str(seed), str(i), str(nworkers), out, str(scale)],
                             cwd=VERIF, env=env, stdout=log, stderr=subprocess.STDOUT)
        procs.append((p, out, log))
    parts, dead = [], []
    limit = float(os.environ.get('VERIF_WALL_LIMIT', '3300' if tier == 'quick' else '14000'))
    for i, (p, out, log) in enumerate(procs):
        try:
            p.wait(timeout=max(5.0, limit - (time.time() - t0)))
        except subprocess.TimeoutExpired:
            p.kill()
            p.wait()
        log.close()
        if p.returncode == 0 and os.path.exists(out):
            with open(out) as f:
                parts.append(json.load(f))
        else:
            tail = ''
            try:
                with open(os.path.join(rundir, 'shard%d.log' % i)) as f:
                    tail = f.read()[-600:]
            except OSError:
                pass
            dead.append((i, p.returncode, tail))
    m = _merge(parts)
    for (i, rc, tail) in dead:
        m['inconclusive']['worker shard %d died rc=%s: %s' % (i, rc, tail[-200:])] += 1
    entries = findings.load()
    known_hit = {}
    unknown = []
    for v in m['violations']:
        e = findings.classify(v, entries)
        if e is not None:
            known_hit.setdefault(e['id'], {'entry': e, 'n': 0, 'witness': v})
        else:
            unknown.append(v)
    # count all violations per class (vcounts carries the totals)
    known_counts = Counter()
    unknown_counts = Counter()
    for k, n in m['vcounts'].items():
        mm = json.loads(k)
        fake = {'prop': mm.pop('property'), 'clause': mm.pop('clause')}
        pr = {}
        for kk, vv in list(mm.items()):
            if kk.startswith('predicates.'):
                pr[kk[len('predicates.'):]] = vv
            else:
                fake[kk] = vv
        if pr:
            fake['predicates'] = pr
        e = findings.classify(fake, entries)
        if e is not None:
            known_counts[e['id']] += n
        else:
            unknown_counts[k] += n
    os.makedirs(REPLAYS, exist_ok=True)
    for fn in os.listdir(REPLAYS):          # replays of earlier runs of this check are stale
        if fn.startswith(prop + '-'):
            os.remove(os.path.join(REPLAYS, fn))
    lines = []
    replay_paths = []
    seen_mech = Counter()
    for v in unknown:
        k = findings.mech_key(v)
        seen_mech[k] += 1
        if seen_mech[k] > 2:
            continue
        idx = len(replay_paths)
        path = os.path.join(REPLAYS, '%s-%s-%d.json' % (prop, v['clause'], idx))
        w = v.pop('witness', {})
        with open(path, 'w') as f:
            json.dump({'property': prop, 'violation': v, 'mechanism': findings.mech(v),
                       'job': w.get('job'), 'case': w.get('case'),
                       'env': {'PYTHONHASHSEED': '0', 'VERIF_SEED': seed, 'tier': tier}},
                      f, indent=1, default=str)
        replay_paths.append(path)
        lines.append('VIOLATION property=%s replay=%s' % (prop, path))
    for fid, kh in sorted(known_hit.items()):
        v = kh['witness']
        path = os.path.join(REPLAYS, '%s-known-%s.json' % (prop, fid))
        w = v.get('witness', {})
        vv = {k: x for k, x in v.items() if k != 'witness'}
        with open(path, 'w') as f:
            json.dump({'property': prop, 'violation': vv, 'mechanism': findings.mech(v),
                       'known_finding': fid, 'job': w.get('job'), 'case': w.get('case'),
                       'env': {'PYTHONHASHSEED': '0', 'VERIF_SEED': seed, 'tier': tier}},
                      f, indent=1, default=str)
        lines.append('KNOWN-FINDING: property=%s %s [%s; %d occurrence(s) this run; witness %s]'
                     % (prop, kh['entry']['what'], fid, known_counts.get(fid, 0), path))
    # minimum counters -> inconclusive
    reasons = []
    mins = campaign.minima(prop, tier, scale)
    for key, need in mins.items():
        have = m['cnt'].get(key, 0) if key != '_nontrivial' else len(m['nontrivial_hashes'])
        if have < need:
            reasons.append('%s=%d<%d' % (key, have, need))
    harness_fail = sum(n for k, n in m['inconclusive'].items()
                       if k.startswith('harness') or k.startswith('worker'))
    if harness_fail:
        reasons.append('harness_failures=%d' % harness_fail)
    probe_fail = sum(n for k, n in m['inconclusive'].items() if k.startswith('probe'))
    if probe_fail:
        reasons.append('probe_unavailable=%d' % probe_fail)
    if m['evaluations'] and m['timeouts'] > max(3, 0.05 * m['jobs']):
        reasons.append('watchdog_timeouts=%d' % m['timeouts'])
    wall = time.time() - t0
    rule = campaign.RULES.get(prop, '')
    samples = m['samples'][:3]
    ev = {
        'property_id': prop, 'tier': tier, 'seed': seed, 'level': 'exploration',
        'coverage': {
            'evaluations': int(m['evaluations']),
            'distinct_nontrivial': len(m['nontrivial_hashes']),
            'distinct_cases': len(m['hashes']),
            'rule': rule,
            'samples': samples if samples else [{'note': 'no sample'}],
            'simpy_events_processed': int(m['events']),
            'monitor_counters': {k: int(v) for k, v in sorted(m['cnt'].items())},
            'distinct_process_order_signatures': len(m['sigs']),
            'distinct_pool_shapes_max_per_shard': int(m['states']),
            'tie_permutation_swaps': int(m['swaps']),
            'job_kinds': dict(m['kinds']),
            'outcomes': dict(m['outcomes']),
            'inconclusive': dict(m['inconclusive']),
            'watchdog_timeouts': int(m['timeouts']),
            'known_findings_matched': {k: int(v) for k, v in known_counts.items()},
            'unlisted_violation_mechanisms': {k: int(v) for k, v in unknown_counts.items()},
            'violations_of_other_properties_seen_not_judged_here': dict(m['other']),
            'minimum_counters': mins,
            'exhaustive': False,
            'workers': nworkers, 'dead_workers': len(dead),
        },
        'assumptions': campaign.ASSUMPTIONS.get(prop, []) + campaign.COMMON_ASSUMPTIONS,
        'wall_s': round(wall, 2),
        'violations': int(sum(unknown_counts.values())),
    }
    ac = {}
    for fn, c in sorted((m.get('cover') or {}).items()):
        miss = sorted(c['total'] - c['executed'])
        ac[fn] = {'executed_lines': len(c['executed']), 'total_lines': len(c['total']),
                  'never_executed_lines': miss[:40]}
    ev['coverage']['anchor_coverage'] = ac
    extra = campaign.extra_evidence(prop, m)
    ev['coverage'].update(extra)
    os.makedirs(EVIDENCE, exist_ok=True)
    with open(os.path.join(EVIDENCE, '%s.json' % prop), 'w') as f:
        json.dump(ev, f, indent=1, default=str)
    shutil.rmtree(rundir, ignore_errors=True)
    if unknown:
        code = 1
    elif reasons:
        code = 2
        lines.append('INCONCLUSIVE property=%s reason=%s' % (prop, ','.join(reasons)))
    else:
        code = 0
    if not quiet:
        print('%s %s seed=%d: %d jobs, %d evaluations, %d distinct non-trivial, %d events, '
              '%.1fs, outcomes=%s' % (prop, tier, seed, m['jobs'], m['evaluations'],
                                      len(m['nontrivial_hashes']), m['events'], wall,
                                      dict(m['outcomes'])))
        if m['harness_tb']:
            print('harness traceback (first):\n' + m['harness_tb'])
        for ln in lines:
            print(ln)
        if code == 0:
            print('HELD property=%s on everything explored' % prop)
    return code, ev, lines


def replay(path):
    from .common import use_repo
    use_repo()
    from . import worker
    with open(path) as f:
        rp = json.load(f)
    prop = rp['property']
    job = rp['job']
    out = worker.run_job(job, prop, case=rp.get('case'))
    print('replay of %s: outcome=%s' % (path, out.get('outcome')))
    for v in out.get('viol') or []:
        v = {k: x for k, x in v.items() if k != 'witness'}
        print('  witness: ' + json.dumps(v, default=str)[:1500])
    print('%d violation(s) of %s reproduced' % (len(out.get('viol') or []), prop))
    return 1 if out.get('viol') else 0


def main(argv):
    if argv and argv[0] == '--replay':
        if os.environ.get('PYTHONHASHSEED') != '0':
            env = dict(os.environ, PYTHONHASHSEED='0', TQDM_DISABLE='1')
            os.execve(PYTHON, [PYTHON, '-B', '-W', 'ignore', '-m', 'vt.driver'] + argv, env)
        sys.exit(replay(argv[1]))
    prop = argv[0]
    tier = argv[1] if len(argv) > 1 else os.environ.get('VERIF_TIER', 'quick')
    seed = int(os.environ.get('VERIF_SEED', '0'))
    scale = float(os.environ.get('VERIF_SCALE', '1'))
    code, ev, lines = run_check(prop, tier, seed, scale)
    sys.exit(code)


if __name__ == '__main__':
    main(sys.argv[1:])
