"""Shared paths, repo import and small helpers for the verification harness.

Everything here runs under /venv/bin/python with the repository under test on
sys.path (VERIF_REPO, default /repo).  Nothing is imported from an installed
copy of topsim: the working tree is what runs.
"""
import hashlib
import json
import os
import sys

VERIF = os.path.dirname(os.path.dirname(os.path.abspath(__file__)))
REPO = os.environ.get("VERIF_REPO", "/repo")
WORK = os.path.join(VERIF, ".work")
REPLAYS = os.environ.get("VERIF_REPLAY_DIR", os.path.join(VERIF, "replays"))
EVIDENCE = os.environ.get("VERIF_EVIDENCE_DIR", os.path.join(VERIF, "evidence"))
WORK = os.environ.get("VERIF_WORK_DIR", WORK)
PYTHON = "/venv/bin/python"

EPS = 1e-9


class ProbeUnavailable(Exception):
    """A probe could not read the state it needs (attribute moved/renamed).

    Always turned into *inconclusive*, never into a violation."""


class StepBudgetExceeded(Exception):
    """Logical watchdog: simulated time passed the bound of the case."""


def use_repo():
    """Put the repository under test first on sys.path and silence tqdm."""
    os.environ.setdefault("TQDM_DISABLE", "1")
    if REPO not in sys.path:
        sys.path.insert(0, REPO)
    # the topsim package must come from REPO, nothing else
    import topsim  # noqa
    p = os.path.dirname(os.path.abspath(topsim.__file__))
    if os.path.dirname(p) != os.path.abspath(REPO):
        raise RuntimeError("topsim imported from %s, expected under %s" % (p, REPO))
    return p


def canon(obj):
    return json.dumps(obj, sort_keys=True, separators=(",", ":"), default=str)


def case_hash(case):
    return hashlib.sha1(canon(case).encode()).hexdigest()[:16]


def is_int_time(t):
    return abs(t - round(t)) < EPS
