"""Offline oracles over the recorded trace of one run.  Each adds violations
to the Trace (tr.violate) and bumps the evaluation counters (tr.cnt).
Ground truth comes from the generated case (spec) and the harness's own
shadow bookkeeping, never from topsim's counters."""
import math

from . import probe
from .common import EPS, ProbeUnavailable

DF_COLS = ('available_resources', 'ingest_resources', 'running_tasks', 'finished_tasks',
           'provisioned_observations', 'hot_buffer', 'cold_buffer', 'stored',
           'observations_waiting', 'observations_finished', 'scheduler_observation_queue')
CLUSTER_COLS = ('available_resources', 'running_tasks', 'finished_tasks',
                'provisioned_observations')


def ident(r):
    """(observation, 'wf'|'ingest', node) of a do_work record: from the plan captured at
    planning time / the allocation's observation; parsing the id is only the fallback."""
    if r.get('ident') is not None:
        return r['ident']
    return split_tid(r['task'])


def split_tid(tid):
    """'name_clock_node' -> (name, node) ; 'name_ingest_tI' -> (name, 'ingest', I)"""
    parts = tid.split('_')
    if len(parts) >= 3 and parts[1] == 'ingest':
        return parts[0], 'ingest', parts[2]
    return parts[0], 'wf', parts[-1]


def workflow_records(tr):
    """obs name -> node -> list of do_work records (workflow tasks only)."""
    out = {}
    for r in tr.dowork:
        if r.get('ingest'):
            continue
        name, kind, node = ident(r)
        if kind != 'wf':
            continue
        out.setdefault(name, {}).setdefault(node, []).append(r)
    return out


def evaluate(case, tr, res, bound=None, paused=False):
    sp = tr.spec
    try:
        c01(case, tr, res)
        c03(case, tr, res)
        c06(case, tr, res)
        c08(case, tr, res)
        c09(case, tr, res)
        c15(case, tr, res)
        c17(case, tr, res)
        c18(case, tr, res)
        c07_overrate(case, tr, res)
        c04_skippable(case, tr, res)
        if res['outcome'] == 'completed':
            c04(case, tr, res)
            c02_final(case, tr, res)
            c07_final(case, tr, res)
        if res.get('df') is not None and len(res['df']):
            c12(case, tr, res)
        if res.get('events') is not None and res['outcome'] == 'completed':
            c13(case, tr, res)
        c05(case, tr, res, bound)
    except ProbeUnavailable as e:
        tr.inconclusive.append('probe: %s' % e)


# ----------------------------------------------------------------------
def c01(case, tr, res):
    """sweep + accounting of adversarial proposals; recorded-interval overlaps
    are a diagnostic only (off-by-one convention, DESIGN section 1)."""
    tr.cnt['c01_adversarial_rewrites'] += len(getattr(tr, 'advlog', []) or [])
    by_m = {}
    for r in tr.dowork:
        by_m.setdefault(r['machine'], []).append(r)
    for mid, rs in by_m.items():
        rs.sort(key=lambda r: r['seq_enter'])
        for a, b in zip(rs, rs[1:]):
            ea = a.get('seq_exit')
            if ea is None or b['seq_enter'] < ea:
                tr.violate('C01', 'activations_overlap_in_event_order', machine=mid,
                           first=a['task'], second=b['task'],
                           first_span=[a['seq_enter'], ea], second_enter=b['seq_enter'])
            elif a.get('aft') is not None and b.get('ast') is not None and \
                    a['aft'] > b['ast'] + EPS:
                tr.cnt['c01_diag_recorded_interval_overlap'] += 1
        if len(rs) >= 2:
            tr.cnt['c01_machines_reused'] += 1
    # illegal proposals must never start work
    for a in tr.allocs:
        legal = [w for w in a['where'] if w in ('available', 'ingest', 'idle:own')]
        if a['ingest']:
            legal = [w for w in a['where'] if w == 'ingest']
        started = any(d.get('alloc') is a for d in tr.dowork)
        if a['exc'] is not None:
            tr.cnt['c01_rejections'] += 1
        if started and (not legal or not a['in_cluster'] or a['busy_at_enter']):
            tr.violate('C01', 'illegal_proposal_executed', task=a['task'], machine=a['machine'],
                       where=a['where'], in_cluster=a['in_cluster'],
                       busy_at_enter=a['busy_at_enter'], ingest=a['ingest'])


def c02_final(case, tr, res):
    sim = res['sim']
    sp = tr.spec
    p = probe.pools(sim.cluster)
    if sorted(p['available']) != sp['machine_ids_sorted'] or p['ingest'] or p['occupied'] \
            or p['idle']:
        tr.violate('C02', 'final_not_all_available', pools={
            'available': p['available'], 'ingest': p['ingest'], 'occupied': p['occupied'],
            'idle': {str(k): v for k, v in p['idle'].items()}})
    n = getattr(sim.cluster, 'num_provisioned_obs', None)
    if n is not None and n != 0:
        tr.violate('C02', 'final_reservation_counter', value=n)
    tr.cnt['c02_final_evals'] += 1


def c03(case, tr, res):
    sp = tr.spec
    if tr.permuting or case.get('adversary'):
        return
    recs = workflow_records(tr)
    for name, nodes in recs.items():
        o = sp['obs'].get(name)
        if o is None:
            continue
        for (u, v, w) in o['edges']:
            if v not in nodes:
                continue
            rv = nodes[v][0]
            if not rv.get('exited') and rv.get('ast', None) is None:
                pass
            ru = nodes.get(u, [None])[0]
            if ru is None or not ru.get('exited'):
                tr.violate('C03', 'started_before_predecessor_finished', obs=name, task=rv['task'],
                           pred=u, pred_state='not finished' if ru else 'never started')
                continue
            ast = rv.get('ast') if rv.get('exited') else None
            if ast is None:
                # still running at the end of the run: its start is t_enter + wait; skip timing
                if rv['t_enter'] + EPS < ru['aft'] - 0:
                    tr.violate('C03', 'started_before_predecessor_finished', obs=name,
                               task=rv['task'], pred=ru['task'], t_enter=rv['t_enter'],
                               pred_aft=ru['aft'])
                continue
            tr.cnt['c03_edges'] += 1
            if ast + EPS < ru['aft']:
                tr.violate('C03', 'started_before_predecessor_finished', obs=name,
                           task=rv['task'], pred=ru['task'], ast=ast, pred_aft=ru['aft'])
        # exact start: later of allocation time and last arrival over cross-machine preds
        for v, lst in nodes.items():
            rv = lst[0]
            if not rv.get('exited') or rv.get('exc'):
                continue
            exp = rv['t_enter']
            cross = 0
            same = 0
            ok = True
            for (u, vv, w) in o['edges']:
                if vv != v:
                    continue
                ru = nodes.get(u, [None])[0]
                if ru is None or not ru.get('exited'):
                    ok = False
                    break
                if ru['machine'] != rv['machine']:
                    cross += 1
                    bw = sp['machines'][rv['machine']]['bw']
                    arr = ru['aft'] + (w * 1.0) / bw
                    if arr > exp:
                        exp = arr
                    if arr > rv['t_enter'] + EPS:
                        tr.cnt['c03_positive_waits'] += 1
                else:
                    same += 1
            if not ok:
                continue
            tr.cnt['c03_starts'] += 1
            tr.cnt['c03_cross_edges'] += cross
            tr.cnt['c03_same_edges'] += same
            if abs(rv['ast'] - exp) > 1e-9:
                tr.violate('C03', 'recorded_start_not_allocation_or_arrival', obs=name,
                           task=rv['task'], ast=rv['ast'], expected=exp,
                           allocation_time=rv['t_enter'], machine=rv['machine'])


def c04(case, tr, res):
    sp = tr.spec
    sim = res['sim']
    executed = {}
    for r in tr.dowork:
        executed[r['task']] = executed.get(r['task'], 0) + 1
    wf_seen = {}
    ing_seen = {}
    for r in tr.dowork:
        name, kind, node = ident(r)
        if kind == 'ingest':
            ing_seen.setdefault(name, {})
            ing_seen[name][r['task']] = ing_seen[name].get(r['task'], 0) + 1
        else:
            key = (name, node)
            wf_seen[key] = wf_seen.get(key, 0) + 1
            if name not in sp['obs'] or node not in sp['obs'][name]['nodes']:
                tr.violate('C04', 'unexpected_task_executed', task=r['task'])
    n_expected = 0
    for name, o in sp['obs'].items():
        n_expected += o['ingest_demand'] + len(o['nodes'])
        for node in o['nodes']:
            n = wf_seen.get((name, node), 0)
            if n != 1:
                tr.violate('C04', 'task_not_exactly_once', task='wf:%s:%s' % (name, node),
                           activations=n)
        ids = ing_seen.get(name, {})
        if len(ids) != o['ingest_demand'] or any(v != 1 for v in ids.values()):
            tr.violate('C04', 'task_not_exactly_once', task='ingest:%s' % name,
                       activations=sum(ids.values()), distinct=len(ids),
                       expected=o['ingest_demand'])
    for name in ing_seen:
        if name not in sp['obs']:
            tr.violate('C04', 'unexpected_task_executed', task='ingest of %s' % name)
    expected = range(n_expected)
    for r in tr.dowork:
        if not r.get('exited') or r.get('exc'):
            tr.violate('C04', 'task_not_completed_at_return', task=r['task'])
    tr.cnt['c04_tasks'] += len(expected)
    for name, o in tr.obs.items():
        if o['status_seq'] != ['WAITING', 'RUNNING', 'FINISHED']:
            tr.violate('C04', 'observation_life_cycle', obs=name, seq=o['status_seq'])
    try:
        st = [str(getattr(x.status, 'value', x.status)) for x in sim.instrument.observations]
        if any(s != 'FINISHED' for s in st):
            tr.violate('C04', 'observation_status_at_return', status=st)
    except AttributeError:
        pass
    # task table: one row per executed task
    tasks = res.get('tasks')
    if tasks is not None:
        idx = [str(i) for i in tasks.index]
        ex = sorted(t for t, n in executed.items() for _ in range(n))
        if sorted(idx) != ex:
            tr.violate('C04', 'task_table_rows', rows=len(idx), executed=len(ex),
                       missing=sorted(set(ex) - set(idx))[:5],
                       extra=sorted(set(idx) - set(ex))[:5])
    # quiescence
    q = {}
    q['running'] = [r['task'] for l in tr.alloc_live.values() for r in l] + \
                   [r['task'] for l in tr.active.values() for r in l]
    q['queued'] = list(probe.queue_names(sim.scheduler))
    p = probe.pools(sim.cluster)
    q['reserved'] = {str(k): v for k, v in p['idle'].items()}
    q['not_available'] = sorted(set(sp['machine_ids_sorted']) - set(p['available']))
    bs = probe.buffer_state(sim.buffer)
    q['hot_used'] = bs['hot_total'] - bs['hot_free']
    q['cold_used'] = bs['cold_total'] - bs['cold_free']
    q['arrays'] = probe.telescope_use(sim.instrument)
    q['pending_ingest'] = probe.pending_ingest(sim.scheduler)
    q['reservation_counter'] = getattr(sim.cluster, 'num_provisioned_obs', 0)
    try:
        q['running_list'] = [t.id for t in probe.running_tasks(sim.cluster)]
    except ProbeUnavailable:
        q['running_list'] = []
    bad = {k: v for k, v in q.items() if v}
    if bad:
        tr.violate('C04', 'not_quiescent_at_return', state=bad)
    tr.cnt['c04_completed_runs'] += 1
    # non-trivial: two workflows overlapped in time
    spans = [(o['alloc_tasks_enter']['t'], o['wf_finished']['t']) for o in tr.obs.values()
             if o['alloc_tasks_enter'] and o['wf_finished']]
    spans.sort()
    for a, b in zip(spans, spans[1:]):
        if b[0] < a[1]:
            tr.cnt['c04_overlapping_workflows'] = 1
            break


def c04_skippable(case, tr, res):
    """Proposals on a busy or duplicated machine are 'skipped' proposals: on pairings where a
    skipped proposal becomes legal again by itself (queue: busy/dup, batch: dup within the own
    reservation) they must not end the run - otherwise the remaining tasks never execute."""
    adv = case.get('adversary')
    if not adv or tr.permuting:
        return
    prof = set(adv['profile'])
    ok = (case['pairing'] == 'queue' and prof <= {'busy', 'dup'}) or \
         (case['pairing'] == 'batch' and prof <= {'dup'})
    if not ok:
        return
    tr.cnt['c04_skippable_runs'] += 1
    w = (res.get('exc') or {}).get('where') or {}
    rejected = res['outcome'] == 'error' and res['exc']['type'] == 'RuntimeError' and \
        w.get('func') in ('allocate_task_to_cluster', '_process_current_schedule')
    if rejected and getattr(tr, 'advlog', None):
        tr.violate('C04', 'run_aborted_by_skippable_proposal', exc=res['exc']['type'],
                   func=w.get('func'), pairing_family=case['pairing'],
                   rewrites=len(tr.advlog), msg=res['exc']['msg'][:100])


def c05(case, tr, res, bound):
    if bound is None:
        return
    tr.cnt['c05_runs'] += 1
    postponed = any(len(o['checks']) > 1 for o in tr.obs.values()) or \
        any(o['begin'] and o['begin']['t'] > tr.spec['obs'][n]['start'] + EPS
            for n, o in tr.obs.items())
    starved = tr.cnt.get('alg_contended_rounds', 0) > 0
    if postponed:
        tr.cnt['c05_postponed_admission'] = 1
    if starved:
        tr.cnt['c05_ready_task_without_machine'] = 1
    if case.get('adversary') or tr.permuting:
        return
    if res['outcome'] == 'completed':
        if res['T'] > bound:
            tr.violate('C05', 'finished_after_bound', T=res['T'], bound=bound)
        return
    preds = state_predicates(tr, res)
    if res['outcome'] == 'error':
        w = res['exc'].get('where') or {}
        tr.violate('C05', 'raised', exc=res['exc']['type'], func=w.get('func'),
                   file=w.get('file'), msg=res['exc']['msg'][:160], predicates=preds)
    elif res['outcome'] == 'budget':
        tr.violate('C05', 'not_finished_within_bound', bound=bound, predicates=preds)


def state_predicates(tr, res):
    """Boolean predicates about the state at the end of the run; they are the
    components of a finding's mechanism (never seeds or generated values)."""
    sim = res['sim']
    sp = tr.spec
    out = {}
    try:
        bs = probe.buffer_state(sim.buffer)
        used = bs['hot_total'] - bs['hot_free']
        out['hot_over_threshold'] = used / bs['hot_total'] > 0.6
        out['hot_stored_empty'] = not bs['hot_stored']
        out['data_parked_in_cold'] = bool(bs['cold_stored'])
        out['move_in_flight'] = bool(bs['hot_transfer'] or bs['cold_transfer'])
        pend = probe.pending_ingest(sim.scheduler)
        n_ing_live = sum(1 for l in tr.alloc_live.values() for r in l if r['ingest'])
        waiting = [n for n, o in tr.obs.items() if o['begin'] is None]
        out['observation_still_waiting'] = bool(waiting)
        out['pending_ingest_counter_without_ingest'] = pend > 0 and n_ing_live == 0 and \
            not tr.pending_prov
        p = probe.pools(sim.cluster)
        npo = getattr(sim.cluster, 'num_provisioned_obs', 0)
        out['reservation_counter_without_reservation'] = npo > len(p['idle'])
        out['workflow_queued'] = bool(tr.queue_shadow)
        out['task_running'] = any(tr.alloc_live.values())
        out['same_step_admissions'] = _same_step_admissions(tr) >= 2
        out['hot_usage_exceeded_threshold'] = getattr(tr, 'max_hot_frac', 0.0) > 0.6 + 1e-12
        out['tiering_started_without_exceeding_threshold'] = bool(
            getattr(tr, 'tiering_without_exceeding', False))
        out['refused_for_buffer_room'] = any(
            c.get('ret') is False and _buffer_refusal(c, sp['obs'][n])
            for n, o in tr.obs.items() for c in o['checks'])
    except ProbeUnavailable as e:
        tr.inconclusive.append('probe: %s' % e)
    return out


def _buffer_refusal(c, o):
    vol = o['rate'] * o['duration']
    try:
        return c['hot_free'] < vol or c['cold_free'] < vol
    except KeyError:
        return False


def _same_step_admissions(tr):
    times = {}
    for n, o in tr.obs.items():
        if o['begin']:
            times[o['begin']['t']] = times.get(o['begin']['t'], 0) + 1
    return max(times.values()) if times else 0


def c06(case, tr, res):
    sp = tr.spec
    dl = case.get('delays') or {}
    for r in tr.dowork:
        if not r.get('exited') or r.get('exc'):
            continue
        rt = r['aft'] - r['ast']
        if abs(r['aft'] - (r['t_exit'] + 1)) > 1e-9:
            tr.violate('C06', 'finish_not_exit_plus_one', task=r['task'], aft=r['aft'],
                       exit=r['t_exit'])
        if r.get('ingest'):
            name = ident(r)[0]
            o = sp['obs'].get(name)
            if o is not None:
                tr.cnt['c06_ingest_activations'] += 1
                if abs(rt - o['duration']) > 1e-9:
                    tr.violate('C06', 'ingest_runtime', task=r['task'], runtime=rt,
                               duration=o['duration'])
            continue
        name, kind, node = ident(r)
        o = sp['obs'].get(name)
        if o is None or node not in o['nodes'] or r['machine'] not in sp['machines']:
            continue
        nd = o['nodes'][node]
        m = sp['machines'][r['machine']]
        base = max(int(nd['comp'] / m['cpu']), int(nd['task_data'] / m['bw']))
        if nd['comp'] == 0 and nd['task_data'] == 0 and sp.get('static'):
            # zero-work task of a static plan keeps its planned duration
            base = max(0, (r.get('nominal_before') or 0))
        exp = max(1, base)
        tr.cnt['c06_activations'] += 1
        if base < 1:
            tr.cnt['c06_substep_activations'] += 1
        if dl.get('mode') == 'model':
            if rt + 1e-9 < exp:
                tr.violate('C06', 'runtime_shorter_than_work', task=r['task'], runtime=rt,
                           expected_at_least=exp)
            continue
        extra = int((sp['extras'].get(name) or {}).get(node, 0)) if dl.get('mode') == 'fixed' else 0
        if base < 1 and extra > 0 and abs(rt - max(1, base + extra)) <= 1e-9:
            # sub-step work with an injected extra: 'at least one step, lengthened by what the
            # delay model adds' can be read as max(1, work) + extra or max(1, work + extra);
            # both are accepted (DESIGN section 4, C06)
            tr.cnt['c06_substep_with_extra_either_reading'] += 1
            continue
        if abs(rt - (exp + extra)) > 1e-9:
            tr.violate('C06', 'runtime_not_work_over_speed', task=r['task'], runtime=rt,
                       expected=exp + extra, comp=nd['comp'], data=nd['task_data'],
                       cpu=m['cpu'], bw=m['bw'], extra=extra,
                       zero_work=(nd['comp'] == 0 and nd['task_data'] == 0),
                       substep=(base < 1))


def c07_final(case, tr, res):
    sim = res['sim']
    sp = tr.spec
    bs = probe.buffer_state(sim.buffer)
    if abs(bs['hot_free'] - bs['hot_total']) > 1e-6 or abs(bs['cold_free'] - bs['cold_total']) > 1e-6:
        tr.violate('C07', 'buffers_not_empty_at_return', hot_free=bs['hot_free'],
                   hot_total=bs['hot_total'], cold_free=bs['cold_free'],
                   cold_total=bs['cold_total'])
    for name, o in tr.obs.items():
        s = sp['obs'][name]
        if len(o['deposits']) != s['duration']:
            tr.violate('C07', 'deposit_count_final', obs=name, deposits=len(o['deposits']),
                       duration=s['duration'])
        ts = [d['t'] for d in o['deposits']]
        if ts and o['begin'] and (ts[0] != o['begin']['t'] or
                                  any(b - a != 1 for a, b in zip(ts, ts[1:]))):
            tr.violate('C07', 'deposits_not_one_per_step', obs=name, times=ts[:12],
                       admitted=o['begin']['t'])
        if o['freed'] is None:
            tr.violate('C07', 'never_freed', obs=name)
        elif o['wf_finished'] and o['freed']['seq'] != o['wf_finished']['seq']:
            tr.violate('C07', 'freed_not_at_workflow_completion', obs=name)
    tr.cnt['c07_final_evals'] += 1


def c07_overrate(case, tr, res):
    """Ingest above the hot buffer's maximum ingest rate must be rejected with an
    error and must not deposit anything."""
    sp = tr.spec
    for name, o in tr.obs.items():
        s = sp['obs'][name]
        if int(s['rate']) <= sp['hot_rate']:
            continue
        if o['deposits']:
            tr.violate('C07', 'overrate_deposit_accepted', obs=name, rate=s['rate'],
                       limit=sp['hot_rate'], deposits=len(o['deposits']))
        if o['ingest_enter'] is not None:
            tr.cnt['c07_overrate_cases'] += 1
            if res['outcome'] != 'error':
                tr.violate('C07', 'overrate_not_rejected', obs=name, rate=s['rate'],
                           limit=sp['hot_rate'], outcome=res['outcome'])


def c08(case, tr, res):
    sp = tr.spec
    ing = {}
    for r in tr.dowork:
        if r.get('ingest'):
            ing.setdefault(ident(r)[0], []).append(r)
    for name, o in tr.obs.items():
        s = sp['obs'][name]
        if o['begin'] is None:
            continue
        rs = ing.get(name, [])
        if o['prov_enter'] is None or o.get('prov_exc'):
            continue           # run ended before / in provisioning (judged at the admission)
        done = res['outcome'] == 'completed' or all(r.get('exited') for r in rs)
        if len(rs) != s['ingest_demand']:
            tr.violate('C08', 'ingest_machine_count', obs=name, machines=len(rs),
                       demand=s['ingest_demand'])
        if len(set(r['machine'] for r in rs)) != len(rs):
            tr.violate('C08', 'ingest_machines_not_distinct', obs=name,
                       machines=[r['machine'] for r in rs])
        for r in rs:
            tr.cnt['c08_ingest_activations'] += 1
            if abs(r['t_enter'] - o['begin']['t']) > EPS:
                tr.violate('C08', 'ingest_not_started_at_admission', obs=name, task=r['task'],
                           entered=r['t_enter'], admitted=o['begin']['t'])
            if r.get('exited') and not r.get('exc'):
                if abs((r['aft'] - r['ast']) - s['duration']) > 1e-9:
                    tr.violate('C08', 'ingest_hold_time', obs=name, task=r['task'],
                               held=r['aft'] - r['ast'], duration=s['duration'])
                a = r.get('alloc')
                if a is not None and a.get('exited') and a.get('exc') is None:
                    rel = a['t_exit']
                    if not (r['aft'] - 1 - EPS <= rel <= r['aft'] + EPS):
                        tr.violate('C08', 'ingest_release_time', obs=name, task=r['task'],
                                   released=rel, aft=r['aft'])
                    tr.cnt['c08_release_at_aft' if abs(rel - r['aft']) < EPS
                           else 'c08_release_at_aft_minus_1'] += 1
        if res['outcome'] == 'completed' and o['status_seq'] != ['WAITING', 'RUNNING', 'FINISHED']:
            tr.violate('C08', 'status_sequence', obs=name, seq=o['status_seq'])
        if o['finish'] is not None:
            if abs((o['finish']['t'] - o['begin']['t']) - s['duration']) > EPS:
                tr.violate('C08', 'observation_length', obs=name,
                           begun=o['begin']['t'], finished=o['finish']['t'],
                           duration=s['duration'])
    for (name, b) in tr.idle_due:
        o = tr.obs[name]
        tr.cnt['c08_idle_and_due'] += 1
        if o['begin'] is None or abs(o['begin']['t'] - b) > EPS:
            if o['begin'] is None and res['outcome'] != 'completed' and res['T'] <= b:
                continue
            tr.violate('C08', 'not_on_time_when_idle', obs=name, due=b,
                       begun=(o['begin']['t'] if o['begin'] else None),
                       checks=[{k: c.get(k) for k in ('t', 'ret', 'exc')} for c in o['checks'][:3]])


def c09(case, tr, res):
    sp = tr.spec
    if case['pairing'] != 'batch':
        return
    n = sp['n_machines']
    adv = case.get('adversary')
    for a in tr.allocs:
        if a['ingest']:
            continue
        started = any(d.get('alloc') is a for d in tr.dowork)
        if not started:
            continue
        tr.cnt['c09_owned_allocations'] += 1
        if adv:
            # an adversarial proposal may legally use an unreserved machine; what must never
            # happen is work on a machine reserved for somebody else
            if 'idle:other' in a['where']:
                tr.violate('C09', 'ran_on_foreign_reservation', task=a['task'],
                           machine=a['machine'], where=a['where'])
            continue
        if a['where'] != ['idle:own']:
            tr.violate('C09', 'workflow_task_not_on_own_reservation', task=a['task'],
                       machine=a['machine'], where=a['where'], obs=str(a['obs']))
    for a in tr.allocs:
        if a['ingest'] and a.get('on_reserved'):
            tr.violate('C09', 'ingest_on_reserved_machine', task=a['task'], machine=a['machine'],
                       owner=a['on_reserved'])
    split = sp.get('resource_split')
    seen = set()
    for r in tr.reservations:
        if r['exc'] or not r['machines']:
            continue
        name = r['obs']
        tr.cnt['c09_reservations'] += 1
        size = len(r['machines'])
        if split and name in split:
            lo, hi = split[name]
            lo = max(lo, sp['min_resources'])
        else:
            lo, hi = sp['min_resources'], n // sp['partitions']
        if size > hi or size < lo:
            tr.violate('C09', 'reservation_size', obs=str(name), size=size, lo=lo, hi=hi,
                       split=bool(split))
        if r['live_before'] >= sp['partitions']:
            tr.violate('C09', 'reservation_beyond_partitions', obs=str(name),
                       live_before=r['live_before'], partitions=sp['partitions'])
        if name in seen:
            tr.violate('C09', 'second_reservation_for_observation', obs=str(name))
        seen.add(name)
    # released at workflow end (checked in the event that removes the observation)
    for name, o in tr.obs.items():
        if o['wf_finished'] is None:
            continue
        rr = [r for r in tr.reservations if r['obs'] == name and r['machines']]
        for r in rr:
            rel = r.get('released')
            if rel is None or rel['seq'] != o['wf_finished']['seq']:
                tr.violate('C09', 'reservation_not_released_at_workflow_end', obs=name,
                           released=rel, finished=o['wf_finished'])
            tr.cnt['c09_release_checks'] += 1


def c12(case, tr, res):
    df = res['df']
    T = res['T']
    complete = res['outcome'] == 'completed'
    nrows = len(df)
    exp_rows = int(math.floor(T + EPS)) if complete else None
    if complete and nrows != exp_rows:
        tr.violate('C12', 'row_count', rows=nrows, timesteps=exp_rows)
    if list(df.index) != list(range(nrows)):
        tr.violate('C12', 'row_order', index=list(df.index)[:10])
    nb = len(tr.boundaries)
    cols = [c for c in DF_COLS if c in df.columns]
    missing = [c for c in DF_COLS if c not in df.columns]
    if missing:
        tr.inconclusive.append('df columns missing: %s' % missing)
    vals = {c: df[c].tolist() for c in cols}
    for i in range(min(nrows, nb)):
        snap = tr.boundaries[i]
        for c in cols:
            v = vals[c][i]
            tv = snap[c]
            try:
                bad = abs(float(v) - float(tv)) > 1e-6
            except (TypeError, ValueError):
                bad = True
            if bad:
                prop = 'C12'
                tr.violate(prop, 'cell_' + c, row=i, reported=_num(v), true=_num(tv),
                           two_ingests_overlap=tr.cnt.get('c12_two_ingests', 0) > 0)
                if c in CLUSTER_COLS:
                    tr.violate('C02', 'counter_' + c, row=i, reported=_num(v), true=_num(tv))
        tr.cnt['c12_rows'] += 1
        tr.cnt['c02_counter_evals'] += 1
    # non-triviality: two ingests overlapping with different end times
    spans = [(o['begin']['t'], o['begin']['t'] + tr.spec['obs'][n]['duration'])
             for n, o in tr.obs.items() if o['begin']]
    for i in range(len(spans)):
        for j in range(i + 1, len(spans)):
            a, b = spans[i], spans[j]
            if a[0] < b[1] and b[0] < a[1] and a[1] != b[1]:
                tr.cnt['c12_two_ingests'] = 1


def _num(v):
    try:
        f = float(v)
        return int(f) if f == int(f) else f
    except (TypeError, ValueError):
        return str(v)


KINDS = {
    'started': ('instrument', 'telescope', 'started'),
    'finished': ('instrument', 'telescope', 'finished'),
    'buffer_added': ('buffer', 'buffer', 'added'),
    'buffer_removed': ('buffer', 'buffer', 'removed'),
    'queue_added': ('scheduler', 'queue', 'added'),
    'queue_removed': ('scheduler', 'queue', 'removed'),
    'alloc_started': ('scheduler', 'allocation', 'started'),
    'alloc_stopped': ('scheduler', 'allocation', 'stopped'),
}


def c13(case, tr, res):
    ev = res['events']
    sp = tr.spec
    rows = []
    if ev is not None and len(ev):
        need = ('time', 'actor', 'observation', 'event', 'resource')
        if any(c not in ev.columns for c in need):
            tr.inconclusive.append('event log columns: %s' % list(ev.columns))
            return
        rows = list(zip(ev['time'].tolist(), ev['actor'].tolist(), ev['observation'].tolist(),
                        ev['event'].tolist(), ev['resource'].tolist()))
    for name, o in tr.obs.items():
        if o['begin'] is None:
            continue
        truth = {
            'started': o['begin']['t'],
            'finished': o['finish']['t'] if o['finish'] else None,
            'buffer_added': o['ingest_enter']['t'] if o['ingest_enter'] else None,
            'buffer_removed': o['wf_finished']['t'] if o['wf_finished'] else None,
            'queue_added': o['handed']['t'] if o['handed'] else None,
            'queue_removed': o['wf_finished']['t'] if o['wf_finished'] else None,
            'alloc_started': o['alloc_tasks_enter']['t'] if o['alloc_tasks_enter'] else None,
            'alloc_stopped': o['wf_finished']['t'] if o['wf_finished'] else None,
        }
        got = {}
        for k, (actor, resource, event) in KINDS.items():
            ts = [t for (t, a, ob, e, r) in rows
                  if ob == name and a == actor and r == resource and e == event]
            got[k] = ts
            tr.cnt['c13_entries_checked'] += 1
            if truth[k] is None:
                if ts:
                    tr.violate('C13', 'entry_without_transition', obs=name, kind=k, times=ts)
                continue
            if len(ts) != 1:
                tr.violate('C13', 'missing_entry' if not ts else 'duplicate_entry', obs=name,
                           kind=k, times=ts, true_time=truth[k], started_at_zero=(o['begin']['t'] == 0))
                continue
            if abs(float(ts[0]) - float(int(truth[k]))) > EPS:
                tr.violate('C13', 'wrong_timestamp', obs=name, kind=k, logged=ts[0],
                           true_time=truth[k])
        tr.cnt['c13_observations'] += 1
        g = {k: (v[0] if len(v) == 1 else None) for k, v in got.items()}
        chain = ['started', 'queue_added', 'alloc_started', 'alloc_stopped', 'queue_removed']
        seq = [g[k] for k in chain]
        if all(x is not None for x in seq) and any(a > b for a, b in zip(seq, seq[1:])):
            tr.violate('C13', 'causal_order', obs=name, times=dict(zip(chain, seq)))
        if g['buffer_added'] is not None and g['started'] is not None and \
                g['buffer_added'] != g['started']:
            tr.violate('C13', 'buffer_added_not_at_start', obs=name, added=g['buffer_added'],
                       started=g['started'])
        if g['buffer_removed'] is not None and g['alloc_stopped'] is not None and \
                g['buffer_removed'] != g['alloc_stopped']:
            tr.violate('C13', 'buffer_removed_not_at_allocation_stop', obs=name)
        if g['finished'] is not None and g['started'] is not None and \
                g['finished'] - g['started'] != sp['obs'][name]['duration']:
            tr.violate('C13', 'finished_not_duration_after_started', obs=name,
                       started=g['started'], finished=g['finished'],
                       duration=sp['obs'][name]['duration'])


def c15(case, tr, res):
    dl = case.get('delays') or {}
    if dl.get('mode') != 'fixed':
        return
    sp = tr.spec
    first_done = None
    for r in tr.dowork:
        if r.get('ingest') or not r.get('exited') or r.get('exc'):
            continue
        name, kind, node = ident(r)
        extra = int((sp['extras'].get(name) or {}).get(node, 0))
        if extra > 0:
            tr.cnt['c15_delayed_activations'] += 1
            if not r.get('delay_flag'):
                tr.violate('C15', 'delayed_task_not_flagged', task=r['task'], extra=extra)
            a = r.get('alloc')
            if a is not None and a.get('exited') and a.get('exc') is None:
                # the scheduler sees it when the owning allocation loop next runs
                o = tr.obs.get(name)
                if first_done is None or a['t_exit'] < first_done:
                    first_done = a['t_exit']
    if first_done is None or tr.permuting:
        return
    df = res.get('df')
    if df is not None and 'schedule_status' in getattr(df, 'columns', []):
        col = df['schedule_status'].tolist()
        start = int(math.floor(first_done)) + 2
        for i in range(start, len(col)):
            tr.cnt['c15_status_rows'] += 1
            if str(col[i]) != 'DELAYED':
                tr.violate('C15', 'schedule_not_reported_delayed', row=i, value=str(col[i]),
                           delayed_task_completed_at=first_done)
                break
    if res['outcome'] == 'completed':
        try:
            v = str(res['sim'].scheduler.schedule_status.value)
        except AttributeError:
            return
        if v != 'DELAYED':
            tr.violate('C15', 'schedule_not_delayed_at_return', value=v)


def c17(case, tr, res):
    if case['pairing'] != 'dynamic' or case.get('adversary'):
        return
    sp = tr.spec
    static = sp.get('static') or {}
    seen = {}
    for r in tr.dowork:
        if r.get('ingest'):
            continue
        name, kind, node = ident(r)
        plan = (static.get(name) or {}).get(node)
        if plan is None:
            continue
        tr.cnt['c17_activations'] += 1
        if r['machine'] != plan[0]:
            tr.violate('C17', 'ran_on_unplanned_machine', task=r['task'], machine=r['machine'],
                       planned=plan[0])
        seen[r['task']] = seen.get(r['task'], 0) + 1
        if seen[r['task']] > 1:
            tr.violate('C17', 'task_migrated_or_rerun', task=r['task'])
        for o in tr.dowork:
            if o is not r and o['machine'] == r['machine'] and \
                    o['seq_enter'] < r['seq_enter'] and \
                    (o.get('seq_exit') is None or o['seq_exit'] > r['seq_enter']):
                tr.violate('C17', 'did_not_wait_for_busy_planned_machine', task=r['task'],
                           machine=r['machine'], busy_with=o['task'], ingest=bool(o.get('ingest')))
                break
    # non-triviality, measured: a task that was ready (all predecessors released by the
    # cluster, or a root at workflow start) but entered its planned machine later than the
    # first step in which the algorithm could have placed it
    recs = workflow_records(tr)
    for name, nodes in recs.items():
        o = sp['obs'].get(name)
        t0 = tr.obs[name]['alloc_tasks_enter']
        if o is None or t0 is None:
            continue
        preds = {}
        for (u, v, w) in o['edges']:
            preds.setdefault(v, []).append(u)
        for v, lst in nodes.items():
            rv = lst[0]
            ready = t0['t']
            ok = True
            for u in preds.get(v, []):
                ru = nodes.get(u, [None])[0]
                a = ru.get('alloc') if ru else None
                if a is None or not a.get('exited'):
                    ok = False
                    break
                ready = max(ready, a['t_exit'] + 1)
            if ok and rv['t_enter'] > ready + EPS:
                tr.cnt['c17_waits'] += 1


def c18(case, tr, res):
    """In-situ check of tier moves (the direct harness is in direct.py)."""
    for mv in tr.moves:
        check_move(tr, mv)


def check_move(tr, mv):
    if mv.get('obs') is None:
        return
    if mv.get('ret') is False:
        tr.cnt['c18_refused_moves'] += 1
        caps = mv['hot_free0'] == mv['hot_free1'] and mv['cold_free0'] == mv['cold_free1']
        lists = sorted(mv['hot_stored0']) == sorted(mv['hot_stored1']) and \
            sorted(mv['cold_stored0']) == sorted(mv['cold_stored1'])
        slots = mv.get('hot_transfer0') == mv.get('hot_transfer1') and \
            mv.get('cold_transfer0') == mv.get('cold_transfer1')
        if not (caps and lists and slots):
            others = [m for m in tr.moves if m is not mv and m.get('t_enter') is not None and
                      m['t_enter'] <= mv['t_enter'] and
                      (m.get('t_exit') is None or m['t_exit'] >= mv['t_enter'])]
            tr.violate('C18', 'refused_move_changed_state', direction=mv['direction'],
                       before=[mv['hot_free0'], mv['cold_free0']],
                       after=[mv['hot_free1'], mv['cold_free1']],
                       capacities_unchanged=caps, lists_unchanged=lists,
                       transfer_markers_unchanged=slots,
                       concurrent_move_in_flight=bool(others),
                       markers=[mv.get('hot_transfer0'), mv.get('cold_transfer0'),
                                mv.get('hot_transfer1'), mv.get('cold_transfer1')])
        return
    size = mv.get('size')
    rate = min(mv['hot_rate'], mv['cold_rate'])
    hot_slower = mv['hot_rate'] < mv['cold_rate']
    steps = {}
    for s in mv['steps']:
        steps.setdefault(s['t'], {})[s['tier']] = s
    resid = size
    nsteps = 0
    for t in sorted(steps):
        st = steps[t]
        nsteps += 1
        tr.cnt['c18_move_steps'] += 1
        dh = st.get('hot', {}).get('delta')
        dc = st.get('cold', {}).get('delta')
        if dh is None or dc is None or abs(dh + dc) > 1e-9:
            tr.violate('C18', 'step_not_conserving', direction=mv['direction'], t=t,
                       hot_delta=dh, cold_delta=dc, hot_slower=hot_slower)
        moved = abs(dh) if dh is not None else abs(dc or 0)
        exp = min(rate, resid) if resid is not None else None
        if exp is not None and abs(moved - exp) > 1e-9:
            tr.violate('C18', 'step_amount_not_slower_rate', direction=mv['direction'], t=t,
                       moved=moved, expected=exp, hot_slower=hot_slower)
        if resid is not None:
            resid = max(0, resid - moved)
    if mv.get('exc'):
        tr.violate('C18', 'move_raised', direction=mv['direction'], exc=mv['exc'],
                   hot_slower=hot_slower)
        return
    if mv.get('t_exit') is None or mv.get('ret') is not True:
        return            # still in flight when the run ended
    tr.cnt['c18_moves'] += 1
    if size is not None and rate > 0:
        exp_steps = int(math.ceil(size / rate))
        if nsteps != exp_steps:
            tr.violate('C18', 'number_of_transfer_steps', direction=mv['direction'], steps=nsteps,
                       expected=exp_steps, size=size, rate=rate, hot_slower=hot_slower)
    name = mv['obs']
    fs = mv.get('final_state')
    if fs is None:
        return      # the completing step was not observed (direct harness checks this strictly)
    dst1 = fs['cold_stored'] if mv['direction'] == 'h2c' else fs['hot_stored']
    src1 = fs['hot_stored'] if mv['direction'] == 'h2c' else fs['cold_stored']
    others = [m for m in tr.moves if m is not mv and m.get('t_enter') is not None and
              m['t_enter'] <= fs['t'] and (m.get('t_exit') is None or m['t_exit'] >= mv['t_enter'])]
    slots_busy = (fs['hot_transfer'] or fs['cold_transfer']) and not others
    if dst1.count(name) != 1 or src1.count(name) != 0 or slots_busy:
        tr.violate('C18', 'not_in_exactly_one_tier', direction=mv['direction'], obs=name,
                   hot=fs['hot_stored'], cold=fs['cold_stored'],
                   transfer=[fs['hot_transfer'], fs['cold_transfer']])
