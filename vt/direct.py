"""Direct harnesses on the real functions (no full simulation):
micro06 (Task.do_work), plan14 (Planner.run + BatchPlanning), delay15
(DelayModel.generate_delay), flag15 (delay flag), units16 (Config parsing),
move18 (Buffer tier moves)."""
import json
import math
import os
import random
import shutil

from . import gen
from .common import WORK, case_hash, use_repo


def _out(job):
    return {'hash': case_hash(job), 'case': None, 'viol': [], 'cnt': {}, 'inconclusive': [],
            'nontrivial': False, 'events': 0, 'outcome': job['kind'], 'evaluations': 0,
            'extra_nontrivial': []}


def _bump(out, k, n=1):
    out['cnt'][k] = out['cnt'].get(k, 0) + n


def _viol(out, prop, clause, case, **d):
    d.update(prop=prop, clause=clause, case=case)
    # at most 3 witnesses per clause and job
    n = sum(1 for v in out['viol'] if v['clause'] == clause)
    if n < 3:
        out['viol'].append(d)
    else:
        _bump(out, 'suppressed_duplicate_witnesses')


def run_job(job, prop, case=None):
    use_repo()
    k = job['kind']
    out = _out(job)
    f = {'micro06': micro06, 'plan14': plan14, 'delay15': delay15, 'flag15': flag15,
         'units16': units16, 'move18': move18}[k]
    f(job, out, case)
    out['nontrivial'] = bool(out['extra_nontrivial'])
    if out['viol']:
        out['witness'] = out['viol'][0].get('case')
    out['sample'] = out['case']
    # the worker attaches one witness per job; keep each violation's own case as 'history'
    for v in out['viol']:
        v['history'] = v.pop('case', None)
    return out


# ----------------------------------------------------------------------
# C06 micro-harness

def _run_task(flops, data, cpu, bw, extra, duration=None):
    import simpy
    from topsim.core.task import Task
    from topsim.core.machine import Machine
    from .userext import FixedExtra
    env = simpy.Environment()
    m = Machine('m', cpu, 1, 1, bw)
    dm = FixedExtra(extra) if extra is not None else None
    if duration is None:
        t = Task('t_0_0', 0, 0, 'm', [], flops, data, {}, dm)
    else:
        t = Task('t_ingest_t0', 0, 0, 'm', [], 0, 0, 0, dm)
        t.duration = duration
    t0 = 3
    ex = []

    def starter():
        yield env.timeout(t0)
        p = env.process(t.do_work(env, m, None))
        yield p
        ex.append(env.now)
    env.process(starter())
    env.run()
    return t, ex[0] if ex else None, t0


def micro06(job, out, case=None):
    rng = random.Random(job['seed'])
    cases = []
    if case is not None:
        cases = [case]
    else:
        for _ in range(6):
            unit = rng.choice([1, 1, 60, 7, 3600])
            cpu = rng.choice(gen.SPEEDS) * unit
            bw = rng.choice(gen.BWS) * unit
            extra = rng.choice([None, 0, 0, 1, 2, 6])
            line = rng.choice(['compute', 'data', 'both', 'speed', 'ingest'])
            cases.append({'kind': 'micro06', 'cpu': cpu, 'bw': bw, 'extra': extra, 'line': line,
                          'data_fixed': rng.choice([0, bw, 2 * bw + 1]),
                          'comp_fixed': rng.choice([0, cpu - 1, cpu, 3 * cpu])})
    for c in cases:
        if out['case'] is None:
            out['case'] = c
        cpu, bw, extra = c['cpu'], c['bw'], c['extra']
        ex = extra or 0
        pts = []
        if c['line'] == 'ingest':
            for d in range(1, 9):
                t, exit_t, t0 = _run_task(0, 0, cpu, bw, extra, duration=d)
                out['evaluations'] += 1
                _bump(out, 'c06_ingest_activations')
                rt = t.aft - t.ast
                if rt != d + ex or t.aft != exit_t + 1 or t.ast != t0:
                    _viol(out, 'C06', 'ingest_runtime', dict(c, duration=d), runtime=rt,
                          duration=d, extra=ex, aft=t.aft, exit=exit_t)
            continue
        grid = []
        if c['line'] in ('compute', 'both'):
            vals = sorted(set([0, 1, cpu - 1, cpu, cpu + 1, 2 * cpu - 1, 2 * cpu, 2 * cpu + 1,
                               3 * cpu - 1, 3 * cpu] + [rng.randint(0, 3 * cpu) for _ in range(6)]))
            for v in vals:
                grid.append((v, c['data_fixed'] if c['line'] == 'both' else 0, cpu, bw))
        elif c['line'] == 'data':
            vals = sorted(set([0, 1, bw - 1, bw, bw + 1, 2 * bw - 1, 2 * bw, 3 * bw] +
                              [rng.randint(0, 3 * bw) for _ in range(6)]))
            for v in vals:
                grid.append((c['comp_fixed'], v, cpu, bw))
        else:   # same work, slower and slower machine
            work = c['comp_fixed'] if c['comp_fixed'] > 0 else 2 * cpu
            for s in sorted(set([work + 1, work, max(1, work // 2), max(1, work // 3), cpu,
                                 max(1, cpu // 2), 1]), reverse=True):
                grid.append((work, 0, s, bw))
        prev = None
        for (f, d, s, b) in grid:
            t, exit_t, t0 = _run_task(f, d, s, b, extra)
            out['evaluations'] += 1
            _bump(out, 'c06_activations')
            base = max(int(f / s), int(d / b))
            if base < 1:
                _bump(out, 'c06_substep_activations')
            exp = max(1, base) + ex
            rt = t.aft - t.ast
            cc = dict(c, flops=f, data=d, cpu_used=s, bw_used=b)
            if base < 1 and ex > 0 and rt == max(1, base + ex):
                _bump(out, 'c06_substep_with_extra_either_reading')   # see oracles.c06
            elif rt != exp:
                _viol(out, 'C06', 'runtime_not_work_over_speed', cc, runtime=rt, expected=exp,
                      zero_work=(f == 0 and d == 0), substep=(base < 1))
            if exit_t is None or t.aft != exit_t + 1 or t.ast != t0:
                _viol(out, 'C06', 'finish_not_exit_plus_one', cc, aft=t.aft, exit=exit_t,
                      ast=t.ast)
            if prev is not None and rt < prev[0]:
                # more work on the same machine / same work on a slower machine finished sooner
                _viol(out, 'C06', 'runtime_not_monotone', cc, runtime=rt, previous=prev[0],
                      previous_point=prev[1], zero_work=(prev[1][0] == 0 and prev[1][1] == 0),
                      substep=True)
            _bump(out, 'c06_monotone_pairs')
            prev = (rt, (f, d, s, b))
        out['extra_nontrivial'].append(case_hash(c))


# ----------------------------------------------------------------------
# C14 planner harness

NAME_POOL = ['emu', 'dingo', 'obs1', 'o_2', 'a_b_c', 'x9', 'wallaby_7', 'A']


def plan14(job, out, case=None):
    import simpy
    import networkx as nx
    from topsim.core.config import Config
    from topsim.core.cluster import Cluster
    from topsim.core.buffer import Buffer
    from topsim.core.planner import Planner
    from topsim.user.plan.batch_planning import BatchPlanning
    from topsim.user.telescope import Telescope
    rng = random.Random(job['seed'])
    d = os.path.join(WORK, 'p%d_%d' % (os.getpid(), job['i']))
    try:
        cases = []
        if case is not None:
            cases = [case]
        else:
            for _ in range(job.get('n', 40)):
                machines = [{'id': 'm%d' % i, 'flops': rng.choice(gen.SPEEDS),
                             'bw': rng.choice(gen.BWS)} for i in range(rng.randint(1, 4))]
                wf = gen.gen_workflow(rng, machines, nmax=rng.choice([1, 3, 8, 20, 40, 60, 90]),
                                      labels=rng.choice([None, 'shuffle']))
                if rng.random() < 0.3:
                    # non-contiguous integer node ids
                    off = rng.randint(1, 50)
                    for nd in wf['nodes']:
                        nd['id'] = nd['id'] * 3 + off
                    wf['edges'] = [[u * 3 + off, v * 3 + off, w] for u, v, w in wf['edges']]
                cases.append({'kind': 'plan14', 'name': rng.choice(NAME_POOL), 'machines': machines,
                              'workflow': wf, 'clock': rng.choice([0, 0, 3, 17, 2.5])})
        for c in cases:
            if out['case'] is None:
                out['case'] = c
            simcase = {'machines': c['machines'], 'system_bandwidth': 1,
                       'telescope': {'total_arrays': 1, 'max_ingest': 1}, 'timestep': 'seconds',
                       'observations': [{'name': c['name'], 'start': 0, 'duration': 2,
                                         'demand': 1, 'rate': 1, 'ingest_demand': 1,
                                         'workflow': c['workflow']}],
                       'buffer': {'hot': {'capacity': 100, 'max_ingest_rate': 5},
                                  'cold': {'capacity': 100, 'max_data_rate': 5}}}
            shutil.rmtree(d, ignore_errors=True)
            cfgp = gen.materialise(simcase, d)
            env = simpy.Environment()
            if c['clock']:
                env.run(until=c['clock'])
            cfg = Config(cfgp)
            cluster = Cluster(env, cfg)
            model = BatchPlanning('batch')
            planner = Planner(env, cluster, model)
            buf = Buffer(env, cluster, planner, cfg)
            tel = Telescope(env, cfg, planner, None)
            obs = tel.observations[0]
            plan = planner.run(obs, buf, 1)
            out['evaluations'] += 1
            check_plan(out, c, plan, c['name'], c['workflow'], env.now)
            if len(c['workflow']['edges']) >= 1:
                out['extra_nontrivial'].append(case_hash(c))
    finally:
        shutil.rmtree(d, ignore_errors=True)


def check_plan(out, c, plan, name, wf, clock):
    """plan versus the independently parsed workflow description."""
    nodes = {nd['id']: nd for nd in wf['nodes']}
    edges = {(u, v): w for u, v, w in wf['edges']}
    pre = {v: set() for v in nodes}
    suc = {v: set() for v in nodes}
    for (u, v) in edges:
        pre[v].add(u)
        suc[u].add(v)

    def V(clause, **kw):
        _viol(out, 'C14', clause, c, **kw)
    _bump(out, 'c14_plans')
    tasks = list(plan.tasks)
    prefix = '%s_%s_' % (name, clock)
    ids = [t.id for t in tasks]
    if len(tasks) != len(nodes):
        V('task_count', tasks=len(tasks), nodes=len(nodes))
    if len(set(ids)) != len(ids):
        V('task_ids_not_unique', ids=ids[:10])
    by_node = {}
    for t in tasks:
        if not str(t.id).startswith(name + '_'):
            V('task_id_without_observation_name', task=t.id, name=name)
        gid = getattr(t, 'graph_id', None)
        if gid not in nodes:
            # fall back to the id suffix
            suf = str(t.id)[len(prefix):] if str(t.id).startswith(prefix) else None
            gid = next((n for n in nodes if str(n) == suf), None)
        if gid is None:
            V('task_without_graph_node', task=t.id)
            continue
        if gid in by_node:
            V('two_tasks_for_one_node', node=gid)
        by_node[gid] = t
    tid = {n: t.id for n, t in by_node.items()}
    for n, nd in nodes.items():
        t = by_node.get(n)
        if t is None:
            V('node_without_task', node=n)
            continue
        _bump(out, 'c14_tasks')
        if t.flops != nd['comp'] or t.task_data != nd.get('task_data', 0):
            V('demands_differ', node=n, flops=t.flops, comp=nd['comp'], task_data=t.task_data,
              data=nd.get('task_data', 0))
        if sorted(t.pred) != sorted(tid.get(p) for p in pre[n] if tid.get(p)):
            V('predecessor_list', node=n, pred=sorted(t.pred),
              expected=sorted(str(tid.get(p)) for p in pre[n]))
        io = t.io if isinstance(t.io, dict) else {}
        exp_io = {tid.get(p): edges[(p, n)] for p in pre[n]}
        if io != exp_io:
            V('edge_volumes', node=n, io=io, expected={str(k): v for k, v in exp_io.items()})
    # relabelled graph
    g = plan.graph
    try:
        ge = set((a.id, b.id) for a, b in g.edges())
        gn = set(x.id for x in g.nodes())
    except AttributeError:
        ge, gn = None, None
    if ge is None:
        V('graph_nodes_are_not_tasks')
    else:
        if gn != set(tid.values()):
            V('graph_nodes_differ', graph=len(gn), expected=len(tid))
        exp_e = set((tid[u], tid[v]) for (u, v) in edges if u in tid and v in tid)
        if ge != exp_e:
            V('graph_edges_differ', missing=sorted(exp_e - ge)[:5], extra=sorted(ge - exp_e)[:5])
        for (a, b, data) in g.edges(data=True):
            w = data.get('transfer_data')
            u = getattr(a, 'graph_id', None)
            v = getattr(b, 'graph_id', None)
            if (u, v) in edges and w != edges[(u, v)]:
                V('graph_edge_volume', edge=[str(u), str(v)], volume=w, expected=edges[(u, v)])
    # topological order of tasks and exec_order
    pos = {t.id: i for i, t in enumerate(tasks)}
    for (u, v) in edges:
        if u in tid and v in tid and pos.get(tid[u], -1) > pos.get(tid[v], 10 ** 9):
            V('tasks_not_topological', edge=[str(u), str(v)])
    eo = list(plan.exec_order)
    epos = {}
    for i, x in enumerate(eo):
        epos[x] = i
        epos[str(x)] = i
    if len(eo) != len(nodes):
        V('exec_order_length', n=len(eo), nodes=len(nodes))
    for (u, v) in edges:
        pu = epos.get(u, epos.get(tid.get(u)))
        pv = epos.get(v, epos.get(tid.get(v)))
        if pu is None or pv is None or pu > pv:
            V('exec_order_not_topological', edge=[str(u), str(v)])
    # queries
    for n, t in by_node.items():
        try:
            ps = set(x.id for x in plan.get_task_predecessors(t))
            ss = set(x.id for x in plan.get_task_successors(t))
        except Exception as e:
            V('query_raised', exc=type(e).__name__, node=n)
            continue
        _bump(out, 'c14_queries')
        # nodes without a task were reported above ('node_without_task'); compare what exists
        exp_p = set(str(tid.get(p, '<no task for node %s>' % p)) for p in pre[n])
        exp_s = set(str(tid.get(x, '<no task for node %s>' % x)) for x in suc[n])
        if set(map(str, ps)) != exp_p:
            V('predecessor_query', node=n, got=sorted(map(str, ps)), expected=sorted(exp_p),
              kind='returns_successors' if set(map(str, ps)) == exp_s else 'other')
        if set(map(str, ss)) != exp_s:
            V('successor_query', node=n, got=sorted(map(str, ss)), expected=sorted(exp_s))
    # p in pred(t) <=> t in succ(p)
    try:
        P = {t.id: set(x.id for x in plan.get_task_predecessors(t)) for t in by_node.values()}
        S = {t.id: set(x.id for x in plan.get_task_successors(t)) for t in by_node.values()}
        for a in P:
            for p in P[a]:
                if a not in S.get(p, set()):
                    V('pred_succ_disagree', task=a, pred=p,
                      kind='returns_successors' if P == S else 'other')
                    break
    except Exception:
        pass


# ----------------------------------------------------------------------
# C15 direct

def delay15(job, out, case=None):
    from topsim.core.delay import DelayModel
    rng = random.Random(job['seed'])
    cases = []
    if case is not None:
        cases = [case]
    else:
        for _ in range(12):
            cases.append({'kind': 'delay15', 'dist': rng.choice(['normal', 'poisson', 'uniform']),
                          'degree': rng.choice(['LOW', 'MID', 'HIGH', 'NONE']),
                          'prob': rng.choice([0, 0.1, 0.3, 0.5, 1]),
                          'seed': rng.randint(0, 49),
                          'runtimes': sorted(set([0, 1, 2, 3] + [rng.randint(0, 200)
                                                                  for _ in range(20)]))})
    for c in cases:
        if out['case'] is None:
            out['case'] = c
        deg = DelayModel.DelayDegree[c['degree']]
        for rt in c['runtimes']:
            vals = []
            err = None
            for inst in range(2):
                dm = DelayModel(c['prob'], c['dist'], deg, c['seed'])
                for call in range(2):
                    out['evaluations'] += 1
                    _bump(out, 'c15_direct_calls')
                    try:
                        vals.append(dm.generate_delay(rt))
                    except Exception as e:
                        err = e
                        break
                if err is not None:
                    break
            cc = dict(c, runtime=rt)
            cc.pop('runtimes', None)
            if err is not None:
                _viol(out, 'C15', 'generate_delay_raised', cc, exc=type(err).__name__,
                      dist=c['dist'], runtime_zero=(rt == 0), msg=str(err)[:80])
                continue
            if any(v < rt for v in vals):
                _viol(out, 'C15', 'delay_shortens_task', cc, values=[float(v) for v in vals],
                      dist=c['dist'], runtime_zero=(rt == 0))
            if (c['degree'] == 'NONE' or c['prob'] == 0 or rt == 0) and any(v != rt for v in vals):
                _viol(out, 'C15', 'delay_added_when_none_expected', cc,
                      values=[float(v) for v in vals], dist=c['dist'], runtime_zero=(rt == 0))
            if len(set(float(v) for v in vals)) != 1:
                _viol(out, 'C15', 'not_deterministic', cc, values=[float(v) for v in vals],
                      dist=c['dist'], runtime_zero=(rt == 0))
            if any(v > rt for v in vals):
                _bump(out, 'c15_direct_delays_drawn')
        out['extra_nontrivial'].append(case_hash(c))


def flag15(job, out, case=None):
    """Real Task.do_work with a far-future eft, so that only the delay branch
    can set the flag: extra > 0 => delay_flag."""
    rng = random.Random(job['seed'])
    cases = [case] if case is not None else [
        {'kind': 'flag15', 'flops': rng.choice([0, 3, 10, 40]), 'cpu': rng.choice(gen.SPEEDS),
         'extra': rng.choice([0, 1, 2, 5]), 'planned': rng.choice([1, 2, 5])}
        for _ in range(40)]
    import simpy
    from topsim.core.task import Task
    from topsim.core.machine import Machine
    from .userext import FixedExtra
    for c in cases:
        if out['case'] is None:
            out['case'] = c
        env = simpy.Environment()
        m = Machine('m', c['cpu'], 1, 1, 5)
        t = Task('t_0_0', 0, 10 ** 9, 'm', [], c['flops'], 0, {}, FixedExtra(c['extra']))
        if c['flops'] == 0:
            t.duration = c['planned']
        env.process(t.do_work(env, m, None))
        env.run()
        out['evaluations'] += 1
        if c['extra'] > 0:
            _bump(out, 'c15_delayed_activations')
            out['extra_nontrivial'].append(case_hash(c))
            if not t.delay_flag:
                _viol(out, 'C15', 'delayed_task_not_flagged', c, extra=c['extra'])
            if t.delay_offset != c['extra']:
                _viol(out, 'C15', 'delay_offset_wrong', c, offset=t.delay_offset)


# ----------------------------------------------------------------------
# C16 metamorphic harness on Config

SPELLINGS = ['seconds', None, 'minutes', 'hours', 60, 3600, 'custom']


def units16(job, out, case=None):
    from topsim.core.config import Config
    from topsim.core.task import Task
    rng = random.Random(job['seed'])
    d = os.path.join(WORK, 'u%d_%d' % (os.getpid(), job['i']))
    try:
        cases = []
        if case is not None:
            cases = [case]
        else:
            for _ in range(job.get('n', 24) // 2):
                k = rng.choice([2, 3, 5, 7, 13, 30, 45, 90, 150, 300, 600, 900, 1200, 86400])
                cases.append({'kind': 'units16', 'family': 'custom_only', 'custom': k,
                              'quotients': [[rng.randint(0, 70), rng.randint(1, 70)]
                                            for _ in range(6)],
                              'rate': rng.choice([1, 2, 0.5, 3])})
            for _ in range(job.get('n', 24)):
                k = rng.choice([2, 5, 7, 30, 90, 600])
                L = 3600 * 7 * 90 // math.gcd(3600 * 7, 90)   # times are multiples of all units
                L = 25200
                nm = rng.randint(1, 4)
                nobs = rng.randint(1, 3)
                cases.append({
                    'kind': 'units16', 'custom': k,
                    'machines': [{'id': 'm%d' % i, 'flops': rng.choice([1, 2, 5, 0.5, 0.25, 84]),
                                  'bw': rng.choice([1, 2, 10, 0.5])} for i in range(nm)],
                    'system_bandwidth': rng.choice([1, 2, 0.5]),
                    'telescope': {'total_arrays': rng.randint(1, 36), 'max_ingest': rng.randint(1, nm)},
                    'observations': [{'name': 'o%d' % i,
                                      'start': rng.randint(0, 5) * L * k,
                                      'duration': rng.randint(1, 5) * L * k,
                                      'demand': rng.randint(1, 36),
                                      'rate': rng.choice([1, 2, 3, 0.5, 0.25, 4, 7]),
                                      'ingest_demand': rng.randint(1, 3)} for i in range(nobs)],
                    'buffer': {'hot': {'capacity': rng.randint(100, 10 ** 6),
                                       'max_ingest_rate': rng.choice([1, 3, 8, 0.5])},
                               'cold': {'capacity': rng.randint(100, 10 ** 6),
                                        'max_data_rate': rng.choice([1, 2, 6, 0.25])}}})
        for c in cases:
            if out['case'] is None:
                out['case'] = c
            parsed = {}
            if c.get('family') == 'custom_only':
                _units_custom_only(out, c, d)
                out['extra_nontrivial'].append(case_hash(c))
                continue
            for sp in SPELLINGS:
                unit = c['custom'] if sp == 'custom' else sp
                simcase = {'machines': c['machines'], 'system_bandwidth': c['system_bandwidth'],
                           'telescope': c['telescope'], 'timestep': unit,
                           'observations': [dict(o, workflow={'nodes': [{'id': 0, 'comp': 1}],
                                                              'edges': []})
                                            for o in c['observations']],
                           'buffer': c['buffer']}
                shutil.rmtree(d, ignore_errors=True)
                cfgp = gen.materialise(simcase, d)
                cfg = Config(cfgp)
                arrays, pipelines, observations, max_ingest = cfg.parse_instrument_config('telescope')
                machines, sysbw = cfg.parse_cluster_config()
                hot, cold = cfg.parse_buffer_config()
                # a second Config of the same, unchanged file must parse to the same values
                cfg2 = Config(cfgp)
                a2, p2, o2, mi2 = cfg2.parse_instrument_config('telescope')
                m2, sb2 = cfg2.parse_cluster_config()
                h2, c2 = cfg2.parse_buffer_config()
                first = ([(o.est, o.duration, o.ingest_data_rate) for o in observations],
                         [(mm.cpu, mm.bandwidth) for mm in machines], sysbw,
                         hot[0].total_capacity, hot[0].max_ingest_data_rate,
                         cold[0].total_capacity, cold[0].max_data_rate)
                second = ([(o.est, o.duration, o.ingest_data_rate) for o in o2],
                          [(mm.cpu, mm.bandwidth) for mm in m2], sb2,
                          h2[0].total_capacity, h2[0].max_ingest_data_rate,
                          c2[0].total_capacity, c2[0].max_data_rate)
                _bump(out, 'c16_reparse_checks')
                if first != second:
                    _viol(out, 'C16', 'second_parse_of_same_file_differs', dict(c, spelling=str(sp)),
                          spelling_kind=str(sp), column='reparse', first=str(first)[:200],
                          second=str(second)[:200])
                parsed[str(sp)] = {
                    'm': gen.multiplier(unit), 'arrays': arrays, 'max_ingest': max_ingest,
                    'obs': [(o.name, o.est, o.duration, o.demand, o.ingest_data_rate)
                            for o in observations],
                    'ing': {k2: v['ingest_demand'] for k2, v in pipelines.items()},
                    'mach': [(mm.id, mm.cpu, mm.bandwidth) for mm in machines], 'sysbw': sysbw,
                    'hot': (hot[0].total_capacity, hot[0].max_ingest_data_rate),
                    'cold': (cold[0].total_capacity, cold[0].max_data_rate),
                    'machines_obj': machines}
                out['evaluations'] += 1
                _bump(out, 'c16_configs_parsed')
            base = parsed['seconds']
            for sp, p in parsed.items():
                m = p['m']
                cc = dict(c, spelling=sp)

                def V(clause, **kw):
                    _viol(out, 'C16', clause, cc, spelling_kind=str(sp), **kw)
                if sp == 'None' and m != 1:
                    V('absent_unit_not_seconds')
                for (n0, s0, d0, dem0, r0), (n1, s1, d1, dem1, r1), oc in zip(
                        base['obs'], p['obs'], c['observations']):
                    # times are generated as exact multiples of every unit tried: the quotient
                    # must be the exact whole number (7.000000000000001 steps is one step more)
                    if s1 != oc['start'] // m or d1 != oc['duration'] // m:
                        V('time_not_divided', obs=n1, start=repr(s1), duration=repr(d1), m=m,
                          expected=[oc['start'] // m, oc['duration'] // m], column='observation')
                    if r1 != round(oc['rate'] * m):
                        V('data_rate_not_multiplied', obs=n1, rate=r1, m=m, column='observation')
                    if dem1 != oc['demand']:
                        V('demand_scaled', obs=n1, column='observation')
                    # derived: volume per observation does not depend on the unit (rates that
                    # are whole per step)
                    if float(oc['rate'] * m).is_integer() and float(oc['rate']).is_integer():
                        if abs(r1 * d1 - r0 * d0) > 1e-6:
                            V('volume_depends_on_unit', obs=n1, volume=r1 * d1, seconds=r0 * d0,
                              column='observation')
                    _bump(out, 'c16_observation_checks')
                for (i0, c0, b0), (i1, c1, b1), mc in zip(base['mach'], p['mach'], c['machines']):
                    if abs(c1 - mc['flops'] * m) > 1e-9 * max(1, abs(c1)) or \
                            abs(b1 - mc['bw'] * m) > 1e-9 * max(1, abs(b1)):
                        V('machine_speed_or_bandwidth_not_multiplied', machine=i1, cpu=c1, bw=b1,
                          m=m, column='cluster')
                    _bump(out, 'c16_machine_checks')
                if abs(p['sysbw'] - c['system_bandwidth'] * m) > 1e-9 * max(1, p['sysbw']):
                    V('system_bandwidth_not_multiplied', value=p['sysbw'], m=m, column='cluster')
                if abs(p['hot'][1] - c['buffer']['hot']['max_ingest_rate'] * m) > 1e-9 * max(1, p['hot'][1]):
                    V('hot_rate_not_multiplied', value=p['hot'][1], m=m, column='buffer')
                if abs(p['cold'][1] - c['buffer']['cold']['max_data_rate'] * m) > 1e-9 * max(1, p['cold'][1]):
                    V('cold_rate_not_multiplied', value=p['cold'][1], m=m, column='buffer')
                if p['hot'][0] != c['buffer']['hot']['capacity'] or \
                        p['cold'][0] != c['buffer']['cold']['capacity']:
                    V('capacity_scaled', column='buffer')
                if p['arrays'] != c['telescope']['total_arrays'] or \
                        p['max_ingest'] != c['telescope']['max_ingest'] or p['ing'] != base['ing']:
                    V('count_scaled', column='observation')
                # derived: outcome of the rate-limit comparison (whole per-step rates only)
                for (n1, s1, d1, dem1, r1), oc in zip(p['obs'], c['observations']):
                    exact = float(oc['rate'] * m).is_integer() and float(oc['rate']).is_integer()
                    if exact:
                        a = r1 > p['hot'][1]
                        b = oc['rate'] > c['buffer']['hot']['max_ingest_rate']
                        if a != b:
                            V('rate_limit_comparison_depends_on_unit', obs=n1, column='buffer')
                # derived: runtime in seconds of work that is a multiple of speed * m
                for mobj, mc in zip(p['machines_obj'], c['machines']):
                    work = mc['flops'] * m * 3
                    t = Task('x_0_0', 0, 0, mobj.id, [], work, 0, {}, None)
                    rt = t.calculate_runtime(mobj)
                    if abs(rt * m - 3 * m) > 1e-6:
                        V('runtime_in_seconds_depends_on_unit', runtime_steps=rt, m=m,
                          column='cluster')
                    _bump(out, 'c16_runtime_checks')
            # 'minutes' == 60, 'hours' == 3600
            for a, b in (('minutes', '60'), ('hours', '3600'), ('seconds', 'None')):
                pa, pb = parsed[a], parsed[b]
                for key in ('obs', 'mach', 'sysbw', 'hot', 'cold', 'arrays', 'max_ingest'):
                    if pa[key] != pb[key]:
                        _viol(out, 'C16', 'spelling_not_equivalent', dict(c, pair=[a, b]),
                              spelling_kind=a, column=key)
                _bump(out, 'c16_equivalence_checks')
            out['extra_nontrivial'].append(case_hash(c))
    finally:
        shutil.rmtree(d, ignore_errors=True)


def _units_custom_only(out, c, d):
    """Observation times q*k seconds under the custom unit k: the parsed start/duration
    must be exactly q steps (compared with the same plan parsed in seconds)."""
    from topsim.core.config import Config
    k = c['custom']
    obs = [{'name': 'o%d' % i, 'start': qs * k, 'duration': qd * k, 'demand': 1,
            'rate': c['rate'], 'ingest_demand': 1,
            'workflow': {'nodes': [{'id': 0, 'comp': 1}], 'edges': []}}
           for i, (qs, qd) in enumerate(c['quotients'])]
    simcase = {'machines': [{'id': 'm0', 'flops': 2, 'bw': 2}], 'system_bandwidth': 1,
               'telescope': {'total_arrays': 4, 'max_ingest': 1}, 'observations': obs,
               'buffer': {'hot': {'capacity': 10 ** 9, 'max_ingest_rate': 10},
                          'cold': {'capacity': 10 ** 9, 'max_data_rate': 10}}}
    res = {}
    for unit in ('seconds', k):
        simcase['timestep'] = unit
        shutil.rmtree(d, ignore_errors=True)
        cfg = Config(gen.materialise(simcase, d))
        res[unit] = cfg.parse_instrument_config('telescope')[2]
        out['evaluations'] += 1
        _bump(out, 'c16_configs_parsed')
    for o_s, o_k, (qs, qd) in zip(res['seconds'], res[k], c['quotients']):
        _bump(out, 'c16_observation_checks')
        if o_k.est != qs or o_k.duration != qd:
            _viol(out, 'C16', 'time_not_divided', dict(c), spelling_kind='custom', obs=o_k.name,
                  start=repr(o_k.est), duration=repr(o_k.duration), expected=[qs, qd], m=k,
                  column='observation')
        if o_s.est != qs * k or o_s.duration != qd * k:
            _viol(out, 'C16', 'time_not_divided', dict(c), spelling_kind='seconds', obs=o_s.name,
                  start=repr(o_s.est), duration=repr(o_s.duration), m=1, column='observation')
        if o_k.ingest_data_rate != round(c['rate'] * k):
            _viol(out, 'C16', 'data_rate_not_multiplied', dict(c), spelling_kind='custom',
                  obs=o_k.name, rate=o_k.ingest_data_rate, m=k, column='observation')


# ----------------------------------------------------------------------
# C18 direct harness on the real Buffer moves

def move18(job, out, case=None):
    import simpy
    from topsim.core.config import Config
    from topsim.core.buffer import Buffer
    from topsim.core.instrument import Observation
    rng = random.Random(job['seed'])
    d = os.path.join(WORK, 'b%d_%d' % (os.getpid(), job['i']))
    try:
        cases = []
        if case is not None:
            cases = [case]
        else:
            for _ in range(job.get('n', 80)):
                size = rng.randint(1, 60)
                hr, cr = rng.randint(1, 12), rng.randint(1, 12)
                if rng.random() < 0.2:
                    cr = hr
                mode = rng.choice(['h2c', 'c2h', 'round', 'h2c_refused', 'c2h_refused', 'round',
                                   'h2c_exact', 'c2h_exact', 'h2c_two', 'c2h_two'])
                hot_cap = size + rng.randint(1, 30)
                cold_cap = size + rng.randint(0, 30)
                cases.append({'kind': 'move18', 'size': size, 'hot_rate': hr, 'cold_rate': cr,
                              'mode': mode, 'hot_cap': hot_cap, 'cold_cap': cold_cap})
        for c in cases:
            if out['case'] is None:
                out['case'] = c
            simcase = {'machines': [{'id': 'm0', 'flops': 5, 'bw': 5}], 'system_bandwidth': 1,
                       'telescope': {'total_arrays': 1, 'max_ingest': 1}, 'timestep': 'seconds',
                       'observations': [],
                       'buffer': {'hot': {'capacity': c['hot_cap'], 'max_ingest_rate': c['hot_rate']},
                                  'cold': {'capacity': c['cold_cap'], 'max_data_rate': c['cold_rate']}}}
            shutil.rmtree(d, ignore_errors=True)
            cfgp = gen.materialise(simcase, d)
            env = simpy.Environment()
            buf = Buffer(env, None, None, Config(cfgp))
            hot, cold = buf.hot[0], buf.cold[0]
            obs = Observation('o0', 0, 1, 1, None, 1)
            obs.total_data_size = c['size']
            mode = c['mode']
            legs = []
            if mode.endswith('_two'):
                _two_parked(out, c, env, buf, rng)
                out['evaluations'] += 1
                out['extra_nontrivial'].append(case_hash(c))
                continue
            if mode in ('h2c', 'round', 'h2c_refused', 'h2c_exact'):
                hot.observations['stored'].append(obs)
                hot.current_capacity -= c['size']
                if mode == 'h2c_refused':
                    cold.current_capacity = c.get('dst_free', rng.randint(0, c['size'] - 1))
                    c['dst_free'] = cold.current_capacity
                if mode == 'h2c_exact':
                    cold.current_capacity = c['size']      # exactly enough room: must proceed
                legs = ['h2c'] + (['c2h'] if mode == 'round' else [])
            else:
                cold.observations['stored'].append(obs)
                cold.current_capacity -= c['size']
                if mode == 'c2h_refused':
                    hot.current_capacity = c.get('dst_free', rng.randint(0, c['size'] - 1))
                    c['dst_free'] = hot.current_capacity
                if mode == 'c2h_exact':
                    hot.current_capacity = c['size']
                legs = ['c2h']
            out['evaluations'] += 1
            for leg in legs:
                _one_move(out, c, env, buf, obs, leg, refused=mode.endswith('refused'))
            out['extra_nontrivial'].append(case_hash(c))
    finally:
        shutil.rmtree(d, ignore_errors=True)


def _two_parked(out, c, env, buf, rng):
    """Two observations of different size stored in the source tier; the move takes the last
    one stored.  It must proceed iff the destination has room for THAT observation."""
    from topsim.core.instrument import Observation
    hot, cold = buf.hot[0], buf.cold[0]
    leg = 'h2c' if c['mode'].startswith('h2c') else 'c2h'
    src, dst = (hot, cold) if leg == 'h2c' else (cold, hot)
    a = Observation('oA', 0, 1, 1, None, 1)
    b = Observation('oB', 0, 1, 1, None, 1)
    if 'sizes' not in c:
        s1 = rng.randint(1, 40)
        s2 = rng.randint(1, 40)
        while s2 == s1:
            s2 = rng.randint(1, 40)
        c['sizes'] = [s1, s2]
        lo, hi = sorted(c['sizes'])
        c['dst_free'] = rng.choice([lo - 1, lo, (lo + hi) // 2, hi - 1, hi, hi + 3])
    a.total_data_size, b.total_data_size = c['sizes']
    src.total_capacity = src.current_capacity = sum(c['sizes']) + 5
    dst.total_capacity = max(c['dst_free'], 0) + 50
    src.observations['stored'].extend([a, b])
    src.current_capacity -= sum(c['sizes'])
    dst.current_capacity = max(c['dst_free'], 0)
    moved = b                      # observation_for_transfer() pops the last one stored
    fits = dst.current_capacity >= moved.total_data_size
    c2 = dict(c, size=moved.total_data_size)
    _one_move(out, c2, env, buf, moved, leg, refused=not fits)
    names = [o.name for o in src.observations['stored']]
    if 'oA' not in names:
        _viol(out, 'C18', 'other_observation_disturbed', dict(c), direction=leg,
              hot_slower=c['hot_rate'] < c['cold_rate'], source_list=names)
    _bump(out, 'c18_two_parked_cases')


def _one_move(out, c, env, buf, obs, leg, refused):
    hot, cold = buf.hot[0], buf.cold[0]
    size = c['size']
    rate = min(c['hot_rate'], c['cold_rate'])
    hot_slower = c['hot_rate'] < c['cold_rate']
    cc = dict(c, leg=leg)

    def V(clause, **kw):
        _viol(out, 'C18', clause, cc, direction=leg, hot_slower=hot_slower, **kw)
    h0, c0 = hot.current_capacity, cold.current_capacity
    lists0 = (list(hot.observations['stored']), list(cold.observations['stored']))
    left0 = getattr(buf, '_data_left_to_transfer', None)     # amount Buffer.run believes in flight
    gen_ = buf.move_hot_to_cold(0) if leg == 'h2c' else buf.move_cold_to_hot(0)
    proc = env.process(gen_)
    steps = 0
    prev = (h0, c0)
    resid = size
    exc = None
    while not proc.triggered and steps < 500:
        try:
            env.run(until=env.now + 1)
        except Exception as e:
            exc = e
            break
        cur = (hot.current_capacity, cold.current_capacity)
        dh, dc = cur[0] - prev[0], cur[1] - prev[1]
        if dh == 0 and dc == 0:
            prev = cur
            continue
        steps += 1
        _bump(out, 'c18_move_steps')
        if abs(dh + dc) > 1e-9:
            V('step_not_conserving', hot_delta=dh, cold_delta=dc, step=steps)
        moved = abs(dh)
        exp = min(rate, resid)
        if abs(moved - exp) > 1e-9:
            V('step_amount_not_slower_rate', moved=moved, expected=exp, step=steps)
        resid = max(0, resid - moved)
        prev = cur
    if exc is not None:
        V('move_raised', exc=type(exc).__name__ + ': ' + str(exc)[:60])
        return
    if not refused and proc.triggered and proc.ok and proc.value is False:
        V('move_refused_although_destination_has_room', size=size,
          hot_free=h0, cold_free=c0, exact_fit=c['mode'].endswith('exact'))
        return
    h1, c1 = hot.current_capacity, cold.current_capacity
    lists1 = (list(hot.observations['stored']), list(cold.observations['stored']))
    if refused:
        _bump(out, 'c18_refused_moves')
        if (h1, c1) != (h0, c0) or lists1 != lists0 or hot.observations['transfer'] is not None \
                or cold.observations['transfer'] is not None or steps:
            V('refused_move_changed_state', before=[h0, c0], after=[h1, c1], steps=steps)
        left1 = getattr(buf, '_data_left_to_transfer', None)
        if left0 is not None and left1 != left0:
            V('refused_move_changed_state', kind='data_left_to_transfer', before=left0, after=left1)
        return
    _bump(out, 'c18_moves')
    exp_steps = int(math.ceil(size / rate))
    if steps != exp_steps:
        V('number_of_transfer_steps', steps=steps, expected=exp_steps, size=size, rate=rate)
    sgn = 1 if leg == 'h2c' else -1
    if abs((h1 - h0) - sgn * size) > 1e-9 or abs((c1 - c0) + sgn * size) > 1e-9:
        V('tiers_not_adjusted_by_size', hot_change=h1 - h0, cold_change=c1 - c0, size=size)
    src = lists1[0] if leg == 'h2c' else lists1[1]
    dst = lists1[1] if leg == 'h2c' else lists1[0]
    if dst.count(obs) != 1 or src.count(obs) != 0 or hot.observations['transfer'] is not None \
            or cold.observations['transfer'] is not None:
        V('not_in_exactly_one_tier', hot=[o.name for o in lists1[0]],
          cold=[o.name for o in lists1[1]],
          transfer=[getattr(hot.observations['transfer'], 'name', None),
                    getattr(cold.observations['transfer'], 'name', None)])
