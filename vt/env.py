"""ProbedEnvironment: a simpy.Environment handed to topsim exactly as a user
hands in `env`.  It only observes (and, when asked, permutes the order of
same-time wake-ups of per-observation allocation processes); the real
Environment.step() does all the work."""
import math

import simpy
from simpy.events import Process

from .common import StepBudgetExceeded, EPS


def owning_process(event):
    cbs = event.callbacks
    if not cbs:
        return None
    for cb in cbs:
        s = getattr(cb, '__self__', None)
        if isinstance(s, Process):
            return s
    return None


class ProbedEnvironment(simpy.Environment):
    def __init__(self, hooks=None, bound=None, permute_rng=None):
        super().__init__()
        self.hooks = hooks          # object with .boundary(b), .before(event, proc), .after()
        self.bound = bound          # logical watchdog (simulated time)
        self.permute_rng = permute_rng
        self.n_events = 0
        self.n_swaps = 0
        self._next_boundary = 0
        self.kind_of = {}           # id(generator) -> kind string (filled by wrappers)

    # -- helpers ---------------------------------------------------------
    def proc_kind(self, proc):
        if proc is None:
            return None
        g = proc._generator
        k = self.kind_of.get(id(g))
        if k is None:
            k = getattr(g, '__name__', '?')
        return k

    def _maybe_swap(self):
        q = self._queue
        t, prio, eid, ev = q[0]
        if prio != 1:
            return
        if self.proc_kind(owning_process(ev)) != 'allocate_tasks':
            return
        cands = [0]
        for j in range(1, len(q)):
            tj, pj, _, evj = q[j]
            if tj == t and pj == prio and \
                    self.proc_kind(owning_process(evj)) == 'allocate_tasks':
                cands.append(j)
        if len(cands) < 2:
            return
        j = self.permute_rng.choice(cands)
        if j == 0:
            return
        tj, pj, eidj, evj = q[j]
        q[0] = (t, prio, eid, evj)
        q[j] = (tj, pj, eidj, ev)
        self.n_swaps += 1

    # -- the hook --------------------------------------------------------
    def step(self):
        q = self._queue
        hooks = self.hooks
        if q:
            t = q[0][0]
            if t + EPS >= self._next_boundary:
                last = int(math.floor(t + EPS))
                if hooks is not None:
                    for b in range(self._next_boundary, last + 1):
                        hooks.boundary(b)
                self._next_boundary = last + 1
            if self.bound is not None and t > self.bound:
                raise StepBudgetExceeded(t)
            if self.permute_rng is not None:
                self._maybe_swap()
            if hooks is not None:
                ev = q[0][3]
                hooks.before(ev, owning_process(ev), q[0][0])
        self.n_events += 1
        super().step()
        if hooks is not None:
            hooks.after()
