"""The one place where private state of topsim objects is read.

Public accessors are used where they exist; where a private attribute is the
only source (ingest pool, usage counters, scheduler's pending-ingest counter)
the access goes through here and a missing attribute raises ProbeUnavailable
(-> inconclusive), never a violation.
"""
from .common import ProbeUnavailable


def _res(cluster):
    try:
        return cluster._clusters['default']['resources']
    except (AttributeError, KeyError, TypeError):
        pass
    try:
        r = cluster._resources            # the same dictionary under its older name
        r['available'], r['ingest'], r['occupied'], r['idle']
        return r
    except (AttributeError, KeyError, TypeError) as e:
        raise ProbeUnavailable("cluster resources: %r" % (e,))


def pools(cluster):
    """-> dict(available=[ids], ingest=[ids], occupied=[ids], idle={owner:[ids]})
    (lists, with duplicates preserved)."""
    r = _res(cluster)
    try:
        return {
            'available': [m.id for m in r['available']],
            'ingest': [m.id for m in r['ingest']],
            'occupied': [m.id for m in r['occupied']],
            'idle': {k: [m.id for m in v] for k, v in r['idle'].items()},
        }
    except (AttributeError, KeyError, TypeError) as e:
        raise ProbeUnavailable("cluster pools: %r" % (e,))


def pools_key(p):
    return (tuple(sorted(p['available'])), tuple(sorted(p['ingest'])),
            tuple(sorted(p['occupied'])),
            tuple(sorted((str(k), tuple(sorted(v))) for k, v in p['idle'].items())))


def running_tasks(cluster):
    try:
        return list(cluster._clusters['default']['tasks']['running'])
    except (AttributeError, KeyError, TypeError):
        pass
    try:
        return list(cluster._tasks['running'])
    except (AttributeError, KeyError, TypeError) as e:
        raise ProbeUnavailable("running tasks: %r" % (e,))


def finished_map(cluster):
    try:
        return dict(cluster._clusters['default']['tasks']['finished'])
    except (AttributeError, KeyError, TypeError) as e:
        raise ProbeUnavailable("finished tasks: %r" % (e,))


def cluster_row(cluster):
    """What Cluster.to_df() reports (public)."""
    df = cluster.to_df()
    try:
        return {c: df[c].iloc[0] for c in df.columns}
    except Exception as e:  # pragma: no cover
        raise ProbeUnavailable("cluster.to_df: %r" % (e,))


def pending_ingest(scheduler):
    try:
        return scheduler.provision_ingest
    except AttributeError as e:
        raise ProbeUnavailable("scheduler.provision_ingest: %r" % (e,))


def buffers(buffer):
    try:
        h = buffer.hot[0]
        c = buffer.cold[0]
        return h, c
    except (AttributeError, KeyError, TypeError) as e:
        raise ProbeUnavailable("buffer tiers: %r" % (e,))


def buffer_state(buffer):
    h, c = buffers(buffer)
    try:
        return {
            'hot_total': h.total_capacity, 'hot_free': h.current_capacity,
            'cold_total': c.total_capacity, 'cold_free': c.current_capacity,
            'hot_stored': [o.name for o in h.observations['stored']],
            'hot_sched': [o.name for o in h.observations['scheduled']],
            'hot_finished': [o.name for o in h.observations['finished']],
            'hot_transfer': getattr(h.observations['transfer'], 'name', None),
            'cold_stored': [o.name for o in c.observations['stored']],
            'cold_transfer': getattr(c.observations['transfer'], 'name', None),
            'hot_rate': h.max_ingest_data_rate, 'cold_rate': c.max_data_rate,
        }
    except (AttributeError, KeyError, TypeError) as e:
        raise ProbeUnavailable("buffer state: %r" % (e,))


def queue_names(scheduler):
    try:
        return [o.name for o in scheduler.observation_queue]
    except AttributeError as e:
        raise ProbeUnavailable("scheduler queue: %r" % (e,))


def telescope_use(tel):
    try:
        return tel.telescope_use
    except AttributeError as e:
        raise ProbeUnavailable("telescope_use: %r" % (e,))
