"""Case generators.  A case is a JSON-serialisable dict; everything the run
needs (config file, workflow files, algorithm parameters, delays, adversary,
pause schedule) is in it, so a replay file is the case itself.

All physical quantities are generated in *seconds*; `timestep` says in which
unit the configuration is written (topsim divides times and multiplies rates
by the unit).  spec_of() derives, from the integers chosen here, what the
oracles use as ground truth - never from topsim's parsed objects.
"""
import json
import math
import os
import random

STRATA = ('benign', 'contend', 'simul', 'tight', 'refuse', 'units', 'zero')
PAIRINGS = ('batch', 'queue', 'dynamic', 'greedy')
SPEEDS = (2, 3, 4, 5, 8, 10)
BWS = (1, 2, 4, 5, 10)
UNIT_OF = {'seconds': 1, None: 1, 'minutes': 60, 'hours': 3600}


def multiplier(ts):
    if ts in UNIT_OF:
        return UNIT_OF[ts]
    if isinstance(ts, int) and not isinstance(ts, bool):
        return ts
    return 1


# ----------------------------------------------------------------------
# DAGs

def gen_dag(rng, n, shape=None):
    """-> list of edges (u, v) over nodes 0..n-1, u<v not required but acyclic."""
    if shape is None:
        shape = rng.choice(['chain', 'fork', 'join', 'diamond', 'layered', 'random',
                            'parts', 'single'])
    edges = set()
    if n == 1 or shape == 'single':
        return [], shape
    if shape == 'chain':
        for i in range(n - 1):
            edges.add((i, i + 1))
    elif shape == 'fork':
        for i in range(1, n):
            edges.add((0, i))
    elif shape == 'join':
        for i in range(n - 1):
            edges.add((i, n - 1))
    elif shape == 'diamond':
        if n < 4:
            for i in range(n - 1):
                edges.add((i, i + 1))
        else:
            for i in range(1, n - 1):
                edges.add((0, i))
                edges.add((i, n - 1))
    elif shape == 'layered':
        layers = []
        rest = list(range(n))
        while rest:
            k = rng.randint(1, max(1, min(4, len(rest))))
            layers.append(rest[:k])
            rest = rest[k:]
        for a, b in zip(layers, layers[1:]):
            for v in b:
                ps = rng.sample(a, rng.randint(1, len(a)))
                for u in ps:
                    edges.add((u, v))
    elif shape == 'parts':
        cut = rng.randint(1, n - 1)
        for i in range(cut - 1):
            edges.add((i, i + 1))
        for i in range(cut, n - 1):
            if rng.random() < 0.7:
                edges.add((i, i + 1))
    else:  # random
        p = rng.choice([0.15, 0.3, 0.5])
        for u in range(n):
            for v in range(u + 1, n):
                if rng.random() < p:
                    edges.add((u, v))
    return sorted(edges), shape


def gen_workflow(rng, machines, nmax=12, zero_bias=0.1, big=False, shape=None, labels=None):
    n = rng.randint(1, nmax) if nmax <= 40 else rng.randint(41, nmax)
    edges, shape = gen_dag(rng, n, shape)
    slow = min(m['flops'] for m in machines)
    fast = max(m['flops'] for m in machines)
    minbw = min(m['bw'] for m in machines)
    nodes = []
    for i in range(n):
        r = rng.random()
        if r < zero_bias:
            comp = 0
        elif r < zero_bias + 0.12:
            comp = rng.randint(1, max(1, slow - 1))          # below one step of the slowest
        elif r < zero_bias + 0.2:
            comp = rng.randint(slow, max(slow, fast))         # between
        elif r < 0.75:
            comp = rng.choice([slow, fast]) * rng.randint(1, 3)   # exact multiples
        else:
            comp = rng.randint(1, (4 if big else 3) * fast)
        nd = {'id': i, 'comp': comp}
        if rng.random() < 0.3:
            nd['task_data'] = rng.choice([0, rng.randint(1, 3 * minbw), minbw * rng.randint(1, 3)])
        nodes.append(nd)
    es = []
    for (u, v) in edges:
        r = rng.random()
        if r < 0.2:
            vol = 0
        elif r < 0.6:
            vol = rng.randint(1, 4 * minbw)
        else:
            vol = rng.choice([1, 2, 3, 5, 7, 9, 11, 13])
        es.append([u, v, vol])
    # random relabelling of node ids (ids need not be 0..n-1 in topological order)
    if labels == 'shuffle' or (labels is None and rng.random() < 0.3):
        perm = list(range(n))
        rng.shuffle(perm)
        for nd in nodes:
            nd['id'] = perm[nd['id']]
        es = [[perm[u], perm[v], w] for u, v, w in es]
        nodes.sort(key=lambda d: rng.random())
    return {'nodes': nodes, 'edges': es, 'shape': shape}


def workflow_json(wf):
    links = [{'source': u, 'target': v, 'transfer_data': w} for u, v, w in wf['edges']]
    return {'header': {'time': False},
            'graph': {'directed': True, 'multigraph': False, 'graph': {},
                      'nodes': [dict(nd) for nd in wf['nodes']],
                      'edges': links, 'links': links}}


# ----------------------------------------------------------------------

def _static_assignment(rng, wf, machines, mode=None):
    """A list schedule: node -> (machine id, est, eft) in workflow-relative time."""
    ids = [m['id'] for m in machines]
    preds = {nd['id']: [] for nd in wf['nodes']}
    for u, v, w in wf['edges']:
        preds[v].append((u, w))
    order = topo_order(wf)
    mode = mode or rng.choice(['heft', 'random', 'pile'])
    pile = rng.sample(ids, min(len(ids), rng.randint(1, 2)))
    ready_at = {i: 0 for i in ids}
    plan = {}
    byid = {m['id']: m for m in machines}
    comp = {nd['id']: nd for nd in wf['nodes']}
    for v in order:
        best = None
        cands = ids if mode == 'heft' else ([rng.choice(ids)] if mode == 'random' else [rng.choice(pile)])
        for mid in cands:
            m = byid[mid]
            rt = max(int(comp[v]['comp'] / m['flops']), int(comp[v].get('task_data', 0) / m['bw']))
            rt = max(rt, 1)
            st = ready_at[mid]
            for (u, w) in preds[v]:
                pu = plan[u]
                arr = pu[2] + (0 if pu[0] == mid else int(math.ceil(w / m['bw'])))
                st = max(st, arr)
            if best is None or st + rt < best[2]:
                best = (mid, st, st + rt)
        plan[v] = best
        ready_at[best[0]] = best[2]
    return {str(v): list(plan[v]) for v in plan}


def topo_order(wf):
    nodes = [nd['id'] for nd in wf['nodes']]
    indeg = {v: 0 for v in nodes}
    succ = {v: [] for v in nodes}
    for u, v, w in wf['edges']:
        indeg[v] += 1
        succ[u].append(v)
    order = []
    ready = sorted(v for v in nodes if indeg[v] == 0)
    while ready:
        v = ready.pop(0)
        order.append(v)
        for s in sorted(succ[v]):
            indeg[s] -= 1
            if indeg[s] == 0:
                ready.append(s)
    return order


def gen_case(rng, stratum, pairing, tier='quick', delays=None, adversary=None, unit=None,
             wide=False):
    """One simulation case."""
    st = stratum
    # a minority of larger scenarios (more machines, more overlapping observations, bigger DAGs)
    large = st in ('benign', 'contend', 'simul') and \
        rng.random() < (0.06 if tier == 'quick' else 0.2)
    # ---- cluster
    if large:
        n = rng.randint(6, 12)
    elif st == 'contend':
        n = rng.randint(1, 4)
    elif st == 'zero':
        n = rng.choice([1, 1, 2, 3])
    else:
        n = rng.randint(1, 8)
    hetero = rng.random() < 0.7
    s0, b0 = rng.choice(SPEEDS), rng.choice(BWS)
    machines = []
    for i in range(n):
        machines.append({'id': 'm%d' % i,
                         'flops': rng.choice(SPEEDS) if hetero else s0,
                         'bw': rng.choice(BWS) if hetero else b0})
    # ---- telescope
    total_arrays = rng.randint(1, 6)
    max_ingest = rng.randint(1, n)
    if st in ('contend', 'simul') and rng.random() < 0.6:
        max_ingest = n
    # ---- observations
    if large:
        k = rng.randint(4, 7)
    elif st == 'zero':
        k = rng.choice([1, 1, 2])
    elif st in ('simul', 'contend'):
        k = rng.randint(2, 5)
    elif st == 'refuse':
        k = rng.randint(2, 4)
    else:
        k = rng.choice([1, 2, 2, 3, 3, 4, 5])
    obs = []
    same_start = st == 'simul' and rng.random() < 0.4      # >=3 observations due in one step
    if same_start:
        k = max(k, 4)            # one early observation whose workflow keeps machines busy,
        max_ingest = n           # then >=3 observations due in one and the same later step
    t_same = None
    t = rng.choice([0, 0, 1, 2, 5])
    for i in range(k):
        dur = rng.randint(1, 8)
        if st == 'zero' and rng.random() < 0.6:
            dur = 1
        if same_start and i >= 2 and rng.random() < 0.5:
            dur = obs[1]['duration']         # several ingests ending in one and the same step
        if same_start:
            if i == 0:
                start = t
            else:
                if t_same is None:
                    t_same = obs[0]['start'] + obs[0]['duration'] + rng.choice([1, 2, 3, 4])
                start = t_same
        elif st == 'simul':
            # several observations due in the same step
            start = t if (i > 0 and rng.random() < 0.7) else t + rng.choice([0, 1, 2, 3])
        elif st == 'contend':
            start = t + rng.choice([0, 0, 1, 2, 3])
        elif st == 'refuse':
            start = t + rng.choice([0, 1, 2])
        else:
            gap = rng.choice(['overlap', 'back', 'gap', 'same'])
            start = t + {'overlap': rng.randint(0, 3), 'back': 0, 'gap': rng.randint(3, 8),
                         'same': 0}[gap]
        demand = rng.randint(1, total_arrays)
        if st in ('simul', 'contend') and rng.random() < 0.5:
            demand = max(1, total_arrays // 2)     # sub-arrays that fit together
        rate = rng.randint(1, 6)
        ing = rng.randint(1, max_ingest)
        if st in ('simul', 'contend') and rng.random() < 0.5:
            ing = max(1, max_ingest // 2)
        if same_start:
            ing = rng.randint(1, max(1, (n + 1) // 2))
            demand = 1
        wf = gen_workflow(rng, machines, nmax=(6 if st == 'zero' else
                                               rng.choice([8, 12, 16]) if large else
                                               rng.choice([4, 6, 8, 12])),
                          zero_bias=(0.45 if st == 'zero' else 0.08),
                          big=(st == 'contend'))
        if wide:
            # a ready frontier wider than the cluster: forks / layered graphs with many nodes
            wf = gen_workflow(rng, machines, nmax=12, zero_bias=0.05, big=True,
                              shape=rng.choice(['fork', 'layered', 'random', 'diamond']))
            while len(wf['nodes']) < 5:
                wf = gen_workflow(rng, machines, nmax=12, zero_bias=0.05, big=True,
                                  shape=rng.choice(['fork', 'layered', 'diamond']))
        if st == 'zero' and rng.random() < 0.4:
            wf = gen_workflow(rng, machines, nmax=1, zero_bias=0.5)
        ob = {'name': 'o%d' % i, 'start': start, 'duration': dur, 'demand': demand,
              'rate': rate, 'ingest_demand': ing, 'workflow': wf}
        if rng.random() < 0.12:
            ob['min_workflow_resources'] = rng.randint(1, max(1, n // 2))
            if rng.random() < 0.5:
                ob['max_workflow_resources'] = rng.randint(ob['min_workflow_resources'], n)
        obs.append(ob)
        t = start + (dur if st not in ('simul',) else rng.choice([0, dur]))
        if same_start:
            t = start
    # ---- buffers
    vols = [o['rate'] * o['duration'] for o in obs]
    tot, big = sum(vols), max(vols)
    maxrate = max(o['rate'] for o in obs)
    hot_rate = maxrate + rng.choice([0, 0, 1, 5])
    cold_rate = rng.choice([1, 2, 3, maxrate, maxrate + 3, 2 * maxrate])
    if st == 'tight':
        mode = rng.choice(['single_over', 'cumulative', 'cold_small', 'exact', 'exact'])
        if mode == 'exact':
            # resident data reaches exactly 60 % of the hot buffer: no tiering may start
            cand = [v for v in sorted(set(vols + [tot])) if v % 3 == 0 and v * 5 // 3 > big]
            if cand:
                v = rng.choice(cand)
                hot_cap = v * 5 // 3
                cold_cap = rng.choice([hot_cap, 2 * hot_cap, tot + 1])
            else:
                mode = 'cumulative'
        if mode == 'exact':
            pass
        elif mode == 'single_over':
            # one observation alone crosses the 60 % tiering threshold
            hot_cap = rng.randint(big + 1, max(big + 1, int(big / 0.6)))
            cold_cap = rng.choice([big, big + 1, hot_cap, 2 * hot_cap])
        elif mode == 'cumulative':
            hot_cap = rng.randint(big + 1, max(big + 2, int(tot / 0.6)))
            cold_cap = rng.choice([big, tot, 2 * tot])
        else:
            hot_cap = int(tot / 0.55) + 2
            cold_cap = rng.randint(big, max(big, tot))
    elif st == 'refuse':
        # room for the biggest one only: later ones are refused for buffer room
        hot_cap = int(big / 0.55) + 2 + rng.randint(0, 2)
        cold_cap = rng.choice([big, big + 2, hot_cap])
    else:
        hot_cap = int(tot / 0.55) + 2 + rng.randint(0, 20)
        cold_cap = rng.choice([hot_cap, 2 * hot_cap, tot + 1])
        if rng.random() < 0.1:
            # the magnitude of the shipped configurations (5e11 / 2.5e11) with small data
            hot_cap, cold_cap = 500000000000, rng.choice([250000000000, 500000000000])
    near_fit = False
    if st == 'refuse' and len(obs) >= 2 and obs[0]['duration'] >= 2 and rng.random() < 0.3:
        # a second observation falls due while the first (started at t=0) is still streaming
        # in, and misses the free hot space by less than one step of the first one's data rate
        o0, o1 = obs[0], obs[1]
        shift = o0['start']
        for o in obs:
            o['start'] = max(0, o['start'] - shift)
        t1 = rng.randint(1, o0['duration'] - 1)
        o1['start'] = t1
        v1 = o1['rate'] * o1['duration']
        cap = o0['rate'] * t1 + v1 - rng.randint(1, o0['rate'])
        if cap > max(vols) and n >= 2:
            hot_cap = cap
            cold_cap = max(cold_cap, hot_cap)
            near_fit = True
            # arrays and ingest machines must not be what postpones the second observation
            total_arrays = max(total_arrays, 2)
            max_ingest = max(max_ingest, 2)
            for o in (o0, o1):
                o['demand'] = 1
                o['ingest_demand'] = 1
    # ---- algorithm parameters
    alg = {}
    if pairing == 'batch':
        parts = rng.randint(1, min(4, n))
        share = n // parts
        lo = 0 if rng.random() < (0.15 if tier == 'quick' else 0.3) else 1
        minres = rng.randint(lo, share) if share >= lo else share
        alg = {'partitions': parts, 'min_resources': minres}
        if rng.random() < 0.3:
            split = {}
            for o in obs:
                mn = rng.randint(1, max(1, min(n, share)))
                # a maximum may exceed what is free (or even the cluster): it is only a cap
                mx = rng.randint(max(mn, minres, 1), n + 3)   # a maximum below the global
                split[o['name']] = [mn, mx]                 # minimum would be contradictory
            alg['resource_split'] = split
    static = None
    static_est = 'duration'
    if pairing in ('dynamic', 'greedy'):
        static = {o['name']: _static_assignment(rng, o['workflow'], machines) for o in obs}
        if rng.random() < 0.3:
            static_est = 'future'
    # ---- delays
    if delays is None:
        delays = rng.choice(['none', 'none', 'fixed'])
    dl = {'mode': 'none'}
    if delays == 'fixed':
        ex = {}
        for o in obs:
            ex[o['name']] = {str(nd['id']): rng.choice([0, 0, 1, 2, 3, 6])
                             for nd in o['workflow']['nodes']}
        dl = {'mode': 'fixed', 'extras': ex}
    elif delays == 'model':
        dl = {'mode': 'model', 'prob': rng.choice([0.1, 0.3, 0.5, 0.9]),
              'dist': 'normal', 'degree': rng.choice(['LOW', 'MID', 'HIGH']),
              'seed': rng.randint(0, 50)}
    case = {
        'kind': 'sim', 'stratum': st, 'pairing': pairing,
        'timestep': 'seconds',
        'machines': machines, 'system_bandwidth': 1,
        'telescope': {'total_arrays': total_arrays, 'max_ingest': max_ingest},
        'observations': obs,
        'buffer': {'hot': {'capacity': hot_cap, 'max_ingest_rate': hot_rate},
                   'cold': {'capacity': cold_cap, 'max_data_rate': cold_rate}},
        'alg': alg, 'static': static, 'static_est': static_est, 'delays': dl,
        'adversary': adversary, 'permute': None,
        # Buffer.threshold is a public attribute: with tiering switched off the tight-buffer
        # states that the known tiering defects (K1a/K1b) normally cut short can be explored
        'tiering_off': bool(near_fit or (st in ('tight', 'refuse') and rng.random() < 0.4)),
    }
    if unit is not None:
        rescale_units(case, unit, offgrid=rng)
    return case


def rescale_units(case, unit, offgrid=None):
    """Express the plan in a coarser unit with integers only: times (seconds)
    become multiples of the unit; per-second rates/speeds stay the generated
    integers, so per-step rates are m times larger - work, volumes and
    capacities are multiplied by m as well, which keeps the step-level
    trajectory of the case the same as in seconds."""
    m = multiplier(unit)
    case['timestep'] = unit
    if m == 1:
        return
    for o in case['observations']:
        o['start'] *= m
        if offgrid is not None and offgrid.random() < 0.3:
            o['start'] += max(1, m // 2)        # a planned start between two timestep boundaries
        o['duration'] *= m
        wf = o['workflow']
        for nd in wf['nodes']:
            nd['comp'] *= m
            if 'task_data' in nd:
                nd['task_data'] *= m
        for e in wf['edges']:
            e[2] *= m
    case['buffer']['hot']['capacity'] *= m
    case['buffer']['cold']['capacity'] *= m


# ----------------------------------------------------------------------

def spec_of(case):
    m = multiplier(case['timestep'])
    sp = {'m': m, 'pairing': case['pairing']}
    sp['machines'] = {mc['id']: {'cpu': mc['flops'] * m, 'bw': mc['bw'] * m}
                      for mc in case['machines']}
    sp['machine_ids_sorted'] = sorted(sp['machines'])
    sp['n_machines'] = len(sp['machines'])
    sp['total_arrays'] = case['telescope']['total_arrays']
    sp['max_ingest'] = case['telescope']['max_ingest']
    sp['obs'] = {}
    for o in case['observations']:
        wf = o['workflow']
        sp['obs'][o['name']] = {
            'start': o['start'] / m, 'duration': int(round(o['duration'] / m)),
            'demand': o['demand'], 'rate': round(o['rate'] * m),
            'ingest_demand': o['ingest_demand'],
            'nodes': {str(nd['id']): {'comp': nd['comp'], 'task_data': nd.get('task_data', 0)}
                      for nd in wf['nodes']},
            'edges': [(str(u), str(v), w) for u, v, w in wf['edges']],
        }
    b = case['buffer']
    sp['hot_capacity'] = b['hot']['capacity']
    sp['cold_capacity'] = b['cold']['capacity']
    sp['hot_rate'] = b['hot']['max_ingest_rate'] * m
    sp['cold_rate'] = b['cold']['max_data_rate'] * m
    alg = case.get('alg') or {}
    sp['partitions'] = alg.get('partitions', 1)
    sp['min_resources'] = alg.get('min_resources', 3)
    sp['resource_split'] = alg.get('resource_split')
    sp['extras'] = (case.get('delays') or {}).get('extras') or {}
    sp['static'] = case.get('static')
    return sp


def feasible(case):
    """Each observation fits the telescope, the ingest limit, the cluster and
    both buffers on its own; batch minimum fits a partition."""
    sp = spec_of(case)
    n = sp['n_machines']
    if sp['max_ingest'] > n:
        return False
    for name, o in sp['obs'].items():
        vol = o['rate'] * o['duration']
        if o['demand'] > sp['total_arrays'] or o['ingest_demand'] > sp['max_ingest']:
            return False
        if o['duration'] < 1 or vol >= sp['hot_capacity'] or vol > sp['cold_capacity']:
            return False
        if o['rate'] > sp['hot_rate']:
            return False
    if case['pairing'] == 'batch':
        if sp['resource_split']:
            for name, (mn, mx) in sp['resource_split'].items():
                if mn > n or mn < 1 or mx < max(sp['min_resources'], mn):
                    return False
        if n // sp['partitions'] < max(sp['min_resources'], 1):
            return False
    return True


L_STEP = 4


def serial_bound(case):
    """The serial bound of property C05 (see DESIGN section 4, C05)."""
    sp = spec_of(case)
    slow = min(v['cpu'] for v in sp['machines'].values())
    minbw = min(v['bw'] for v in sp['machines'].values())
    rate = max(1e-9, min(sp['hot_rate'], sp['cold_rate']))
    B = max(o['start'] for o in sp['obs'].values())
    for name, o in sp['obs'].items():
        vol = o['rate'] * o['duration']
        B += o['duration'] + 2 * math.ceil(vol / rate) + L_STEP
        ex = sp['extras'].get(name, {})
        inmax = {}
        for u, v, w in o['edges']:
            inmax[v] = max(inmax.get(v, 0), w)
        for nid, nd in o['nodes'].items():
            rt = max(int(nd['comp'] / slow), int(nd['task_data'] / minbw), 1)
            B += rt + int(ex.get(nid, 0)) + math.ceil(inmax.get(nid, 0) / minbw) + L_STEP
    return int(B)


# ----------------------------------------------------------------------

def materialise(case, d):
    """Write config + workflow files for the case into directory d."""
    os.makedirs(d, exist_ok=True)
    pipelines = {}
    observations = []
    for o in case['observations']:
        fn = 'wf_%s.json' % o['name']
        with open(os.path.join(d, fn), 'w') as f:
            json.dump(workflow_json(o['workflow']), f)
        pipelines[o['name']] = {'workflow': fn, 'ingest_demand': o['ingest_demand']}
        entry = {'name': o['name'], 'start': o['start'], 'duration': o['duration'],
                 'instrument_demand': o['demand'], 'data_product_rate': o['rate']}
        for key in ('min_workflow_resources', 'max_workflow_resources'):
            if o.get(key) is not None:
                entry[key] = o[key]       # optional keys of the configuration format
        observations.append(entry)
    cfg = {
        'instrument': {'telescope': {
            'total_arrays': case['telescope']['total_arrays'],
            'max_ingest_resources': case['telescope']['max_ingest'],
            'pipelines': pipelines, 'observations': observations}},
        'cluster': {'header': {'time': 'false'}, 'system': {
            'resources': {mc['id']: {'flops': mc['flops'], 'compute_bandwidth': mc['bw']}
                          for mc in case['machines']},
            'system_bandwidth': case.get('system_bandwidth', 1)}},
        'buffer': {'hot': dict(case['buffer']['hot']), 'cold': dict(case['buffer']['cold'])},
    }
    ts = case.get('timestep', 'seconds')
    if ts is not None:
        cfg['timestep'] = ts
    p = os.path.join(d, 'config.json')
    with open(p, 'w') as f:
        json.dump(cfg, f)
    return p
