"""User-level stand-ins, all through topsim's public extension points
(Planning / Scheduling subclasses, a delay object with generate_delay)."""
import copy
import json

import networkx as nx

from topsim.algorithms.planning import Planning
from topsim.algorithms.scheduling import Scheduling
from topsim.core.planner import WorkflowPlan, WorkflowStatus
from topsim.core.task import Task, TaskStatus
from topsim.user.plan.batch_planning import BatchPlanning


class FixedExtra:
    """A delay object that adds a fixed number of steps."""

    def __init__(self, k):
        self.k = int(k)

    def generate_delay(self, runtime, n=100):
        return runtime + self.k


class InjectingBatchPlanning(BatchPlanning):
    """BatchPlanning, then per-node fixed extra delays (keyed by graph node so
    the delay vector does not depend on call order)."""

    def __init__(self, algorithm, delay_model=None, extras=None, on_plan=None):
        super().__init__(algorithm, delay_model)
        self.extras = extras or {}
        self.on_plan = on_plan

    def generate_plan(self, clock, cluster, buffer, observation, max_ingest):
        plan = super().generate_plan(clock, cluster, buffer, observation, max_ingest)
        ex = self.extras.get(observation.name)
        if ex is not None:
            for t in plan.tasks:
                t.delay = FixedExtra(ex.get(str(t.graph_id), 0))
        if self.on_plan:
            self.on_plan(observation, plan, clock)
        return plan


class StaticListPlanning(Planning):
    """Builds the same objects as SHADOWPlanning.generate_plan (tasks with
    est/eft/machine id, id-based predecessor lists, io dict, relabelled graph,
    tasks sorted by est) from a list schedule given in the case."""

    def __init__(self, algorithm, assignment, delay_model=None, extras=None, on_plan=None,
                 est_mode='duration'):
        super().__init__(algorithm, delay_model)
        self.est_mode = est_mode
        self.assignment = assignment      # obs name -> {node: [machine id, est, eft]}
        self.extras = extras or {}
        self.on_plan = on_plan

    def __str__(self):
        return 'StaticListPlanning'

    def generate_plan(self, clock, cluster, buffer, observation, max_ingest):
        with open(observation.workflow) as f:
            cfg = json.load(f)
        graph = nx.readwrite.node_link_graph(cfg['graph'], edges='edges')
        asg = self.assignment[observation.name]
        est = self._calc_workflow_est(observation, buffer)
        mapping, tasks = {}, []
        ex = self.extras.get(observation.name)
        for node in nx.topological_sort(graph):
            mid, t_est, t_eft = asg[str(node)]
            tid = self._create_observation_task_id(node, observation, clock)
            preds = [self._create_observation_task_id(x, observation, clock)
                     for x in graph.predecessors(node)]
            edge_costs = {}
            for p, data in dict(graph.pred[node]).items():
                edge_costs[self._create_observation_task_id(p, observation, clock)] = \
                    data['transfer_data']
            dm = copy.copy(self.delay_model)
            if ex is not None:
                dm = FixedExtra(ex.get(str(node), 0))
            t = Task(tid, t_est, t_eft, mid, preds, graph.nodes[node]['comp'],
                     graph.nodes[node].get('task_data', 0), edge_costs, dm, gid=node)
            mapping[node] = t
            tasks.append(t)
        new_graph = nx.relabel_nodes(graph, mapping)
        tasks.sort(key=lambda x: x.est)
        exec_order = [t.id for t in tasks]
        eft = max([t.eft for t in tasks] or [0])
        if self.est_mode == 'future':
            est = clock + 1000          # an absolute estimate that lies ahead of the clock
        plan = WorkflowPlan(observation.name, est, eft, tasks, exec_order,
                            WorkflowStatus.SCHEDULED, max_ingest, new_graph)
        if self.on_plan:
            self.on_plan(observation, plan, clock)
        return plan

    def to_df(self):
        pass


class ProbeAlgo(Scheduling):
    """Per-simulation proxy around a (possibly shared) scheduling-algorithm object: forwards
    run() through the harness's observer, everything else unchanged."""

    _OWN = ('inner', '_run')

    def __init__(self, inner, run):
        object.__setattr__(self, 'inner', inner)
        object.__setattr__(self, '_run', run)

    def __setattr__(self, name, value):
        # the simulation may configure the algorithm object it was given: pass it through
        if name in self._OWN:
            object.__setattr__(self, name, value)
        else:
            setattr(self.inner, name, value)

    def __repr__(self):
        return repr(self.inner)

    def __str__(self):
        return str(self.inner)

    def run(self, cluster, clock, workflow_plan, existing_schedule, task_pool):
        return self._run(cluster=cluster, clock=clock, workflow_plan=workflow_plan,
                         existing_schedule=existing_schedule, task_pool=task_pool)

    def to_df(self):
        return self.inner.to_df()

    def __getattr__(self, name):
        return getattr(self.inner, name)


class _Alien:
    """A machine object that is not part of the cluster."""


class Adversary(Scheduling):
    """Wraps a shipped algorithm, forwards its result and then rewrites the
    machine of some of the allocations made in this round, or adds a proposal
    for a task that is no longer UNSCHEDULED.  It never proposes a task whose
    predecessors are unfinished and never takes a task out of the inner
    algorithm's bookkeeping."""

    def __init__(self, inner, profile, rng, prob=0.35, log=None):
        super().__init__()
        self.inner = inner
        self.profile = profile      # list of kinds
        self.rng = rng
        self.prob = prob
        self.log = log if log is not None else []
        self.alien = None

    def __repr__(self):
        return 'Adversary(%r)' % (self.inner,)

    def to_df(self):
        return self.inner.to_df()

    def run(self, cluster, clock, workflow_plan, existing_schedule, task_pool):
        before = set(existing_schedule.keys())
        allocs, status, pool = self.inner.run(cluster=cluster, clock=clock,
                                              workflow_plan=workflow_plan,
                                              existing_schedule=existing_schedule,
                                              task_pool=task_pool)
        rng = self.rng
        new = [t for t in allocs if t not in before]
        for t in new:
            if rng.random() >= self.prob:
                continue
            kind = rng.choice(self.profile)
            m = None
            if kind == 'busy':
                busy = [x for x in cluster.machines if cluster.is_occupied(x)]
                if busy:
                    m = rng.choice(busy)
            elif kind == 'dup':
                others = [allocs[o] for o in allocs if o is not t]
                if others:
                    m = rng.choice(others)
            elif kind == 'foreign':
                own = workflow_plan.id
                fm = []
                for x in cluster.machines:
                    if x in cluster.get_available_resources() or cluster.is_occupied(x):
                        continue
                    if x not in cluster.get_idle_resources(own):
                        fm.append(x)
                if fm:
                    m = rng.choice(fm)
            elif kind == 'alien':
                from topsim.core.machine import Machine
                m = Machine('alien', 5, 1, 1, 5)
            if m is not None:
                self.log.append({'t': clock, 'kind': kind, 'task': t.id, 'machine': m.id,
                                 'was': allocs[t].id})
                allocs[t] = m
        if 'rescheduled' in self.profile and rng.random() < self.prob * 0.5:
            done = [t for t in cluster.get_finished_tasks()
                    if t.task_status is not TaskStatus.UNSCHEDULED
                    and t.id.startswith(str(workflow_plan.id) + '_') and 'ingest' not in t.id]
            free = cluster.get_available_resources() or cluster.get_idle_resources(workflow_plan.id)
            if done and free:
                t = rng.choice(done)
                allocs[t] = free[0]
                self.log.append({'t': clock, 'kind': 'rescheduled', 'task': t.id,
                                 'machine': free[0].id})
        return allocs, status, pool
