"""Wrappers around the real topsim methods + the per-run Trace with its online
monitors.

Wrappers only wrap: they call the original and observe arguments, results and
state.  They are installed once per worker process (install()) before any
simulation object exists and are inert while no Trace is active.
"""
import inspect
from collections import Counter, defaultdict

from . import probe
from .common import ProbeUnavailable, EPS, is_int_time

CUR = None            # the active Trace (one simulation at a time per process)
_INSTALLED = False
MAXV = 12             # violations kept per (property, clause) and run


def set_trace(tr):
    global CUR
    CUR = tr


class Trace:
    """Everything observed during one run, plus the online oracles."""

    def __init__(self, spec):
        self.spec = spec                  # derived from the generated case (see gen.spec_of)
        self.env = None
        self.sim = None
        self.seq = 0
        self.cur = None                   # record of the process being resumed
        self.cur_kind = None
        self.cnt = Counter()
        self.viol = []
        self._vcount = Counter()
        self.inconclusive = []
        self.gens = []
        self.rec_of = {}
        # process-order signatures
        self._sig = []
        self.sigs = set()
        # machine execution
        self.dowork = []
        self.active = defaultdict(list)   # machine id -> live do_work records
        self.allocs = []
        self.alloc_live = defaultdict(list)
        self.n_alloc_done = 0
        self.proposals = []               # what _process_current_schedule was given
        self.alg_runs = []
        # reservations (shadow)
        self.owner = {}                   # obs name -> record {machines:set, t, size}
        self.reservations = []
        # observations
        self.obs = {}                     # name -> life-cycle record
        for name in spec['obs']:
            self.obs[name] = {'checks': [], 'begin': None, 'finish': None,
                              'deposits': [], 'ingest_enter': None, 'ingest_exit': None,
                              'alloc_tasks_enter': None, 'alloc_tasks_exit': None,
                              'wf_finished': None, 'freed': None, 'status_seq': ['WAITING'],
                              'prov_enter': None, 'alloc_ingest_enter': None,
                              'alloc_ingest_exit': None, 'handed': None, 'plan_t': None}
        self.pending_prov = {}            # name -> demand admitted, provisioning not yet run
        self.arrays_shadow = 0
        # buffer shadow: amount of each observation's data per tier
        self.H = defaultdict(float)
        self.C = defaultdict(float)
        self.stored_shadow = set()
        self.moves = []
        self.queue_shadow = set()
        # boundary snapshots
        self.boundaries = []
        self.idle_due = []                # (name, b) : system idle & obs due at boundary b
        self.permuting = False
        self.plans = {}
        self.tidmap = {}                  # task id -> (observation name, graph node)
        for m in MISSING:
            self.inconclusive.append('probe: wrapper target missing: %s' % m)
        self.states = set()

    # ------------------------------------------------------------------
    def attach(self, sim, env):
        self.sim = sim
        self.env = env

    def register(self, gen, kind, rec):
        self.gens.append(gen)
        self.rec_of[id(gen)] = rec
        if self.env is not None:
            self.env.kind_of[id(gen)] = kind

    def violate(self, prop, clause, **detail):
        k = (prop, clause)
        self._vcount[k] += 1
        if self._vcount[k] > MAXV:
            return
        d = {'prop': prop, 'clause': clause, 't': self.now(), 'seq': self.seq}
        d.update(detail)
        self.viol.append(d)

    def now(self):
        return self.env.now if self.env is not None else None

    # ------------------------------------------------------------------
    # environment hooks
    def before(self, event, proc, t):
        self.seq += 1
        if proc is not None:
            g = proc._generator
            self.cur = self.rec_of.get(id(g))
            k = self.env.kind_of.get(id(g))
            if k is None:
                k = getattr(g, '__name__', '?')
            self.cur_kind = k
            self._sig.append(k)
        else:
            self.cur = None
            self.cur_kind = None

    def after(self):
        self.cur = None
        self.cur_kind = None
        try:
            self._after_checks()
        except ProbeUnavailable as e:
            self.inconclusive.append('probe: %s' % e)

    def boundary(self, b):
        if self._sig:
            self.sigs.add(hash(tuple(self._sig)))
            self._sig = []
        try:
            self._boundary_checks(b)
        except ProbeUnavailable as e:
            self.inconclusive.append('probe: %s' % e)

    # ------------------------------------------------------------------
    def _after_checks(self):
        sim = self.sim
        if sim is None:
            return
        sp = self.spec
        cnt = self.cnt
        cl = sim.cluster
        # ---- C01: one task per machine
        for mid, lst in self.active.items():
            if len(lst) > 1:
                self.violate('C01', 'two_tasks_executing', machine=mid,
                             tasks=[r['task'] for r in lst])
        for mid, lst in self.alloc_live.items():
            if len(lst) > 1:
                self.violate('C01', 'two_tasks_allocated', machine=mid,
                             tasks=[r['task'] for r in lst])
        cnt['c01_evals'] += 1
        if sum(1 for l in self.active.values() if l) >= 2:
            cnt['c01_two_machines_busy'] += 1
        # ---- C02: partition of the machine set
        p = probe.pools(cl)
        allm = p['available'] + p['ingest'] + p['occupied']
        for v in p['idle'].values():
            allm = allm + v
        if sorted(allm) != sp['machine_ids_sorted']:
            c = Counter(allm)
            lost = [m for m in sp['machine_ids_sorted'] if c[m] == 0]
            dup = [m for m, n in c.items() if n > 1]
            alien = [m for m in c if m not in sp['machines']]
            self.violate('C02', 'partition', lost=lost, duplicated=dup, alien=alien,
                         pools=_pools_json(p))
        cnt['c02_partition_evals'] += 1
        busyset = set(p['ingest']) | set(p['occupied'])
        for mid, lst in self.alloc_live.items():
            if lst and mid not in busyset and mid in sp['machines']:
                self.violate('C02', 'running_machine_not_busy', machine=mid,
                             task=lst[0]['task'], pools=_pools_json(p))
        if len(busyset) >= 1:
            cnt['c02_busy_states'] += 1
        self.states.add((len(p['available']), len(p['ingest']), len(p['occupied']),
                         tuple(sorted(len(v) for v in p['idle'].values()))))
        # reservations: owners alive
        if sp['pairing'] == 'batch':
            live = [k for k in p['idle']]
            if len(live) > sp['partitions']:
                self.violate('C09', 'too_many_reservations', live=[str(x) for x in live],
                             partitions=sp['partitions'])
            cnt['c09_count_evals'] += 1
            # exclusivity of reserved machines: a machine in idle[o] has no live alloc
            for o, ms in p['idle'].items():
                for m in ms:
                    if self.alloc_live.get(m):
                        self.violate('C09', 'reserved_idle_machine_running', owner=str(o),
                                     machine=m, task=self.alloc_live[m][0]['task'])
            if len(live) >= 2:
                cnt['c09_two_live'] += 1
            if not getattr(self, 'has_adversary', False):
                for o, ms in p['idle'].items():
                    rec = self.owner.get(o)
                    if rec is None:
                        continue
                    extra = [m for m in ms if m not in rec['machines']]
                    if extra:
                        self.violate('C09', 'reservation_grew', owner=str(o), machines=extra,
                                     reserved=list(rec['machines']))
        # ---- C07: buffer conservation
        bs = probe.buffer_state(sim.buffer)
        # capacities as configured (from the generated case), not as the buffer object reports
        hu = sp['hot_capacity'] - bs['hot_free']
        cu = sp['cold_capacity'] - bs['cold_free']
        n_ing = sum(1 for o in self.obs.values()
                    if o['ingest_enter'] is not None and o['ingest_exit'] is None)
        if n_ing > getattr(self, 'max_ingesting', 0):
            self.max_ingesting = n_ing
        if bs['hot_free'] < -EPS or bs['hot_free'] > sp['hot_capacity'] + EPS:
            # mechanism predicates: did every admission individually have room, and did two
            # ingests overlap (free space at admission ignores data still to arrive)?
            self.violate('C07', 'hot_bounds', free=bs['hot_free'], total=sp['hot_capacity'],
                         below_zero=bool(bs['hot_free'] < -EPS),
                         admissions_had_room=not any(
                             v['prop'] == 'C07' and v['clause'].startswith('admitted_without')
                             for v in self.viol),
                         ingests_overlapped=self._ingests_overlapped(),
                         deposits_as_specified=not any(
                             v['prop'] == 'C07' and v['clause'] in ('deposit_amount',
                                                                    'too_many_deposits',
                                                                    'deposit_outside_ingest')
                             for v in self.viol))
        live_moves = sum(1 for m in self.moves if m.get('t_exit') is None)
        if live_moves > getattr(self, 'max_live_moves', 0):
            self.max_live_moves = live_moves
        if bs['cold_free'] < -EPS or bs['cold_free'] > sp['cold_capacity'] + EPS:
            # mechanism predicate: were two tier moves in flight at once (the tiers keep a
            # single 'transfer' marker for the data still to arrive)?
            self.violate('C07', 'cold_bounds', free=bs['cold_free'], total=sp['cold_capacity'],
                         below_zero=bool(bs['cold_free'] < -EPS),
                         concurrent_move_in_flight=getattr(self, 'max_live_moves', 0) >= 2)
        sh = sum(self.H.values())
        sc = sum(self.C.values())
        if abs(hu - sh) > 1e-6:
            self.violate('C07', 'hot_used_vs_resident', used=hu, resident=sh,
                         per_obs=dict(self.H))
        if abs(cu - sc) > 1e-6:
            self.violate('C07', 'cold_used_vs_resident', used=cu, resident=sc,
                         per_obs=dict(self.C))
        cnt['c07_evals'] += 1
        frac = hu / sp['hot_capacity'] if sp['hot_capacity'] else 0.0
        if frac > getattr(self, 'max_hot_frac', 0.0):
            self.max_hot_frac = frac
        if sum(1 for v in self.H.values() if v > 0) >= 2:
            cnt['c07_two_resident'] += 1
        # ---- C08: arrays and ingest limit
        tel = sim.instrument
        use = probe.telescope_use(tel)
        if use < 0 or use > sp['total_arrays']:
            self.violate('C08', 'array_bounds', use=use, total=sp['total_arrays'])
        if use != self.arrays_shadow:
            self.violate('C08', 'array_use_vs_shadow', use=use, shadow=self.arrays_shadow)
        n_ing = sum(1 for lst in self.alloc_live.values() for r in lst if r['ingest'])
        if len(p['ingest']) > sp['max_ingest'] or n_ing > sp['max_ingest']:
            self.violate('C08', 'ingest_limit', pool=len(p['ingest']), running=n_ing,
                         limit=sp['max_ingest'])
        cnt['c08_evals'] += 1
        # ---- C19: truthful queries
        self._c19(p, sh, sc)

    def _ingests_overlapped(self):
        """Did two admitted observations observe at the same time (admission intervals
        [begin, begin + duration) from the trace and the generated durations)?"""
        iv = sorted((o['begin']['t'], o['begin']['t'] + self.spec['obs'][n]['duration'])
                    for n, o in self.obs.items() if o['begin'] is not None)
        return any(b[0] < a[1] for a, b in zip(iv, iv[1:]))

    def _c19(self, p, sh, sc):
        sim = self.sim
        cnt = self.cnt
        any_task = any(self.active.values()) or any(self.alloc_live.values())
        ci = sim.cluster.is_idle()
        if ci and any_task:
            self.violate('C19', 'cluster_idle_while_running',
                         running=[r['task'] for l in self.alloc_live.values() for r in l][:4],
                         n_ingest_pool=len(p['ingest']), n_occupied=len(p['occupied']))
        be = sim.buffer.is_empty()
        if be and (sh > 1e-6 or sc > 1e-6):
            self.violate('C19', 'buffer_empty_while_data', hot=sh, cold=sc)
        si = sim.scheduler.is_idle()
        if si and self.queue_shadow:
            self.violate('C19', 'scheduler_idle_while_queued', queued=sorted(self.queue_shadow))
        ti = sim.instrument.is_idle()
        unfinished = [n for n, o in self.obs.items() if o['finish'] is None]
        if ti and (unfinished or self.arrays_shadow != 0):
            self.violate('C19', 'telescope_idle_while_pending', unfinished=unfinished,
                         arrays=self.arrays_shadow)
        fin = sim.is_finished()
        if bool(fin) != bool(ci and be and si and ti):
            self.violate('C19', 'finished_not_conjunction', finished=fin,
                         parts=[ci, be, si, ti])
        cnt['c19_evals'] += 1
        if any_task:
            cnt['c19_evals_running'] += 1
        # converse sanity (diagnostic): quiescent shadow => queries true
        if (not any_task and not unfinished and not self.queue_shadow and sh <= 1e-6
                and sc <= 1e-6 and self.arrays_shadow == 0):
            cnt['c19_quiescent_states'] += 1
            if not fin:
                self.violate('C19', 'not_finished_when_quiescent', parts=[ci, be, si, ti])

    # ------------------------------------------------------------------
    def snapshot(self):
        """Boundary state from the shadow bookkeeping (not from topsim counters)."""
        sp = self.spec
        busy = [m for m, l in self.alloc_live.items() if l]
        n_ing = sum(1 for l in self.alloc_live.values() for r in l if r['ingest'])
        n_run = sum(len(l) for l in self.alloc_live.values())
        return {
            'available_resources': sp['n_machines'] - len(busy),
            'ingest_resources': n_ing,
            'running_tasks': n_run,
            'finished_tasks': self.n_alloc_done,
            'provisioned_observations': len(self.owner),
            'hot_buffer': sp['hot_capacity'] - sum(self.H.values()),
            'cold_buffer': sp['cold_capacity'] - sum(self.C.values()),
            'stored': len(self.stored_shadow),
            'observations_waiting': sum(1 for o in self.obs.values() if o['begin'] is None),
            'observations_finished': sum(1 for o in self.obs.values() if o['finish'] is not None),
            'scheduler_observation_queue': len(self.queue_shadow),
        }

    def _boundary_checks(self, b):
        sim = self.sim
        if sim is None:
            return
        sp = self.spec
        snap = self.snapshot()
        p = probe.pools(sim.cluster)
        snap['_pools'] = probe.pools_key(p)
        snap['_arrays'] = self.arrays_shadow
        snap['_pending'] = probe.pending_ingest(sim.scheduler)
        snap['_status'] = tuple(str(getattr(o, 'status', None)) for o in sim.instrument.observations)
        snap['_sched_status'] = str(sim.scheduler.schedule_status.value)
        self.boundaries.append(snap)
        # C02 counters at boundaries
        busyset = set(p['ingest']) | set(p['occupied'])
        for mid in busyset:
            if not self.alloc_live.get(mid):
                self.violate('C02', 'busy_machine_without_task', machine=mid, boundary=b,
                             pools=_pools_json(p))
        # C07: one deposit per step while observing
        for name, o in self.obs.items():
            if o['begin'] is None:
                continue
            os_ = sp['obs'][name]
            a = o['begin']['t']
            exp = min(max(int(round(b - a)), 0), os_['duration'])
            if len(o['deposits']) != exp:
                self.violate('C07', 'deposit_count', obs=name, boundary=b, admitted=a,
                             deposits=len(o['deposits']), expected=exp)
            self.cnt['c07_deposit_evals'] += 1
        # C19 purity of the queries (cheap fingerprint before/after)
        fp0 = (probe.pools_key(probe.pools(sim.cluster)), sim.buffer.hot[0].current_capacity,
               sim.buffer.cold[0].current_capacity, tuple(probe.queue_names(sim.scheduler)),
               probe.telescope_use(sim.instrument))
        sim.cluster.is_idle(); sim.buffer.is_empty(); sim.scheduler.is_idle()
        sim.instrument.is_idle(); sim.is_finished()
        fp1 = (probe.pools_key(probe.pools(sim.cluster)), sim.buffer.hot[0].current_capacity,
               sim.buffer.cold[0].current_capacity, tuple(probe.queue_names(sim.scheduler)),
               probe.telescope_use(sim.instrument))
        if fp0 != fp1:
            self.violate('C19', 'query_not_pure', before=str(fp0), after=str(fp1))
        # C08 on-time: system completely idle and exactly one observation due
        due = [n for n, o in self.obs.items()
               if o['begin'] is None and sp['obs'][n]['start'] <= b + EPS]
        if len(due) == 1:
            n = due[0]
            idle = (not any(self.alloc_live.values()) and not any(self.active.values())
                    and not self.owner and sum(self.H.values()) <= 1e-6
                    and sum(self.C.values()) <= 1e-6 and self.arrays_shadow == 0
                    and not self.queue_shadow and snap['_pending'] == 0
                    and not self.pending_prov)
            if idle and abs(sp['obs'][n]['start'] - b) <= EPS:
                self.idle_due.append((n, b))


def _pools_json(p):
    return {'available': p['available'], 'ingest': p['ingest'], 'occupied': p['occupied'],
            'idle': {str(k): v for k, v in p['idle'].items()}}


# ----------------------------------------------------------------------
# generic wrapping machinery

def _bind(sig, self_, a, k):
    try:
        ba = sig.bind(self_, *a, **k)
        ba.apply_defaults()
        return ba.arguments
    except TypeError:
        return {}


MISSING = []      # wrapper targets that do not exist (renamed/removed): -> inconclusive


def _lookup(cls, name):
    """The function that implements cls.name, wherever in the MRO it is defined (a refactor may
    move shared code into a base class); the wrapper is always installed on cls itself."""
    for c in cls.__mro__:
        if name in c.__dict__:
            f = c.__dict__[name]
            if isinstance(f, (staticmethod, classmethod)):
                f = f.__func__
            return f
    MISSING.append('%s.%s' % (cls.__name__, name))
    return None


def wrap_gen(cls, name, kind, enter, leave):
    orig = _lookup(cls, name)
    if orig is None:
        return
    sig = inspect.signature(orig)

    def wrapper(self, *a, **k):
        tr = CUR
        if tr is None:
            return orig(self, *a, **k)
        args = _bind(sig, self, a, k)
        rec = {'kind': kind, 'creator': tr.cur, 'creator_kind': tr.cur_kind}

        def g():
            tr.cnt['w_' + kind] += 1
            enter(tr, rec, self, args)
            try:
                ret = yield from orig(self, *a, **k)
            except GeneratorExit:
                raise
            except BaseException as e:
                leave(tr, rec, self, None, e)
                raise
            leave(tr, rec, self, ret, None)
            return ret
        g.__name__ = name
        g.__qualname__ = cls.__name__ + '.' + name
        gen = g()
        tr.register(gen, kind, rec)
        return gen
    wrapper.__name__ = name
    wrapper.__wrapped__ = orig
    wrapper.__doc__ = orig.__doc__
    setattr(cls, name, wrapper)


def wrap_fn(cls, name, kind, before=None, after=None):
    orig = _lookup(cls, name)
    if orig is None:
        return
    sig = inspect.signature(orig)

    def wrapper(self, *a, **k):
        tr = CUR
        if tr is None:
            return orig(self, *a, **k)
        args = _bind(sig, self, a, k)
        tr.cnt['w_' + kind] += 1
        ctx = before(tr, self, args) if before else None
        try:
            ret = orig(self, *a, **k)
        except BaseException as e:
            if after:
                after(tr, self, args, ctx, None, e)
            raise
        if after:
            after(tr, self, args, ctx, ret, None)
        return ret
    wrapper.__name__ = name
    wrapper.__wrapped__ = orig
    wrapper.__doc__ = orig.__doc__
    setattr(cls, name, wrapper)


# ----------------------------------------------------------------------
# handlers

def _mid(machine):
    return getattr(machine, 'id', None)


def _dowork_enter(tr, rec, task, args):
    machine = args.get('machine')
    mid = _mid(machine)
    preds = args.get('predecessor_allocations') or []
    # the allocation this activation belongs to: the live allocation of the same task on the
    # same machine (independent of which process object created the generator)
    cr = next((a for a in tr.alloc_live.get(mid, []) if a.get('task') == task.id), None)
    if cr is None:
        cr = rec.get('creator')
    rec.update(task=task.id, machine=mid, preds=[p.id for p in preds],
               t_enter=tr.now(), seq_enter=tr.seq,
               ingest=bool(cr and cr.get('kind') == 'alloc' and cr.get('ingest')),
               alloc=cr if (cr and cr.get('kind') == 'alloc') else None,
               obs=(cr.get('obs') if cr and cr.get('kind') == 'alloc' else None),
               nominal_before=task.duration, flops=task.flops, task_data=task.task_data,
               cpu=getattr(machine, 'cpu', None), bw=getattr(machine, 'bandwidth', None),
               eft=task.eft, exited=False)
    # identity of the activation, independent of the format of task ids: workflow tasks are
    # looked up in the plans captured at planning time, ingest tasks take the observation of
    # their allocation
    info = tr.tidmap.get(task.id)
    if rec['ingest']:
        rec['ident'] = (str(rec['obs']), 'ingest', str(task.id))
    elif info is not None:
        rec['ident'] = (info[0], 'wf', info[1])
    else:
        rec['ident'] = None
    tr.dowork.append(rec)
    lst = tr.active[mid]
    lst.append(rec)
    if len(lst) > 1:
        tr.violate('C01', 'two_tasks_executing', machine=mid, tasks=[r['task'] for r in lst])
    tr.cnt['c01_activations'] += 1


def _dowork_leave(tr, rec, task, ret, exc):
    rec.update(t_exit=tr.now(), seq_exit=tr.seq, ast=task.ast, aft=task.aft,
               duration=task.duration, delay_flag=task.delay_flag,
               delay_offset=task.delay_offset, exc=repr(exc) if exc else None, exited=True)
    try:
        tr.active[rec['machine']].remove(rec)
    except ValueError:
        pass


def _alloc_enter(tr, rec, cluster, args):
    task = args.get('task')
    machine = args.get('machine')
    mid = _mid(machine)
    obs = args.get('observation')
    ingest = bool(args.get('ingest'))
    where = []
    try:
        p = probe.pools(cluster)
        for k in ('available', 'ingest', 'occupied'):
            if mid in p[k]:
                where.append(k)
        for o, ms in p['idle'].items():
            if mid in ms:
                where.append('idle:own' if o == obs else 'idle:other')
    except ProbeUnavailable as e:
        tr.inconclusive.append('probe: %s' % e)
    in_cluster = False
    try:
        in_cluster = cluster.machine_ids.get(mid) is machine
    except AttributeError:
        in_cluster = mid in tr.spec['machines']
    rec.update(task=getattr(task, 'id', None), machine=mid, obs=obs, ingest=ingest,
               where=where, in_cluster=in_cluster, t_enter=tr.now(), seq_enter=tr.seq,
               busy_at_enter=bool(tr.active.get(mid)) or bool(tr.alloc_live.get(mid)),
               task_status_at_enter=str(getattr(task, 'task_status', None)),
               registered=False, exited=False, exc=None, permuted=tr.permuting)
    owners = [str(o) for o, r in tr.owner.items() if mid in r['machines'] and o != obs]
    rec['on_reserved'] = owners[0] if (ingest and owners) else None
    tr.allocs.append(rec)
    tr.alloc_live[mid].append(rec)
    rec['registered'] = True


def _alloc_leave(tr, rec, cluster, ret, exc):
    rec.update(t_exit=tr.now(), seq_exit=tr.seq, exited=True,
               exc=(type(exc).__name__ if exc else None))
    try:
        tr.alloc_live[rec['machine']].remove(rec)
    except ValueError:
        pass
    if exc is None:
        tr.n_alloc_done += 1


def _prov_ingest_enter(tr, rec, cluster, args):
    obs = args.get('observation')
    name = getattr(obs, 'name', None)
    rec.update(obs=name, demand=args.get('demand'), t_enter=tr.now(), seq_enter=tr.seq)
    tr.pending_prov.pop(name, None)
    if name in tr.obs:
        tr.obs[name]['prov_enter'] = {'t': tr.now(), 'seq': tr.seq}


def _prov_ingest_leave(tr, rec, cluster, ret, exc):
    _noop_leave(tr, rec, cluster, ret, exc)
    name = rec.get('obs')
    if exc is not None and name in tr.obs:
        tr.obs[name]['prov_exc'] = type(exc).__name__


def _noop_leave(tr, rec, self_, ret, exc):
    rec.update(t_exit=tr.now(), seq_exit=tr.seq, ret=ret if isinstance(ret, (bool, int, type(None))) else str(ret),
               exc=(type(exc).__name__ if exc else None))


def _alloc_tasks_enter(tr, rec, sched, args):
    obs = args.get('observation')
    name = getattr(obs, 'name', None)
    rec.update(obs=name, t_enter=tr.now(), seq_enter=tr.seq)
    if name in tr.obs:
        o = tr.obs[name]
        if o['alloc_tasks_enter'] is not None:
            tr.violate('C04', 'workflow_allocated_twice', obs=name)
        o['alloc_tasks_enter'] = {'t': tr.now(), 'seq': tr.seq}
    tr.queue_shadow.add(name)


def _alloc_tasks_leave(tr, rec, sched, ret, exc):
    _noop_leave(tr, rec, sched, ret, exc)
    name = rec.get('obs')
    if name in tr.obs:
        tr.obs[name]['alloc_tasks_exit'] = {'t': tr.now(), 'seq': tr.seq,
                                            'exc': type(exc).__name__ if exc else None}


def _alloc_ingest_enter(tr, rec, sched, args):
    obs = args.get('observation')
    name = getattr(obs, 'name', None)
    rec.update(obs=name, t_enter=tr.now(), seq_enter=tr.seq)
    if name in tr.obs:
        tr.obs[name]['alloc_ingest_enter'] = {'t': tr.now(), 'seq': tr.seq}


def _alloc_ingest_leave(tr, rec, sched, ret, exc):
    _noop_leave(tr, rec, sched, ret, exc)
    name = rec.get('obs')
    if name in tr.obs:
        tr.obs[name]['alloc_ingest_exit'] = {'t': tr.now(), 'seq': tr.seq}


def _ingest_stream_enter(tr, rec, buf, args):
    obs = args.get('observation')
    name = getattr(obs, 'name', None)
    rec.update(obs=name, t_enter=tr.now(), seq_enter=tr.seq)
    if name in tr.obs:
        tr.obs[name]['ingest_enter'] = {'t': tr.now(), 'seq': tr.seq}


def _ingest_stream_leave(tr, rec, buf, ret, exc):
    _noop_leave(tr, rec, buf, ret, exc)
    name = rec.get('obs')
    if name in tr.obs and exc is None:
        tr.obs[name]['ingest_exit'] = {'t': tr.now(), 'seq': tr.seq}
        tr.stored_shadow.add(name)


def _move_enter(direction):
    def f(tr, rec, buf, args):
        bs = probe.buffer_state(buf)
        thr = getattr(buf, 'threshold', 0.6)
        used = (bs['hot_total'] - bs['hot_free']) / bs['hot_total'] if bs['hot_total'] else 0
        if direction == 'h2c' and used <= 0.6 + 1e-12:
            tr.tiering_without_exceeding = True
        rec.update(direction=direction, t_enter=tr.now(), seq_enter=tr.seq, steps=[],
                   hot_free0=bs['hot_free'], cold_free0=bs['cold_free'],
                   hot_rate=bs['hot_rate'], cold_rate=bs['cold_rate'],
                   hot_stored0=list(bs['hot_stored']), cold_stored0=list(bs['cold_stored']),
                   hot_transfer0=bs['hot_transfer'], cold_transfer0=bs['cold_transfer'],
                   obs=None, size=None)
        tr.moves.append(rec)
    return f


def _move_leave(tr, rec, buf, ret, exc):
    bs = probe.buffer_state(buf)
    rec.update(t_exit=tr.now(), seq_exit=tr.seq, ret=ret,
               exc=(type(exc).__name__ + ': ' + str(exc)) if exc else None,
               hot_free1=bs['hot_free'], cold_free1=bs['cold_free'],
               hot_stored1=list(bs['hot_stored']), cold_stored1=list(bs['cold_stored']),
               hot_transfer1=bs['hot_transfer'], cold_transfer1=bs['cold_transfer'])
    if ret is False and rec.get('obs'):
        # refused: the observation was put back
        tr.stored_shadow.add(rec['obs'])


# plain functions -------------------------------------------------------

def _check_before(tr, sched, args):
    obs = args.get('observation')
    name = getattr(obs, 'name', None)
    snap = {'t': tr.now(), 'seq': tr.seq, 'obs': name}
    try:
        p = probe.pools(sched.cluster)
        bs = probe.buffer_state(sched.buffer)
        snap.update(n_available=len(p['available']), n_ingest=len(p['ingest']),
                    n_reserved=sum(len(v) for v in p['idle'].values()),
                    pending=probe.pending_ingest(sched),
                    hot_free=bs['hot_free'], cold_free=bs['cold_free'],
                    hot_total=bs['hot_total'],
                    cold_transfer=bs['cold_transfer'], hot_transfer=bs['hot_transfer'],
                    pending_prov=sum(tr.pending_prov.values()),
                    arrays=tr.arrays_shadow, max_ingest=args.get('max_ingest'))
    except ProbeUnavailable as e:
        tr.inconclusive.append('probe: %s' % e)
    return snap


def _check_after(tr, sched, args, snap, ret, exc):
    snap['ret'] = bool(ret) if exc is None else None
    snap['exc'] = type(exc).__name__ if exc else None
    try:
        snap['pending_after'] = probe.pending_ingest(sched)
    except ProbeUnavailable:
        pass
    name = snap['obs']
    if name in tr.obs:
        tr.obs[name]['checks'].append(snap)
    tr.cnt['c08_checks'] += 1
    if ret is False or ret == False:  # noqa
        tr.cnt['c08_refused'] += 1


def _begin_after(tr, tel, args, ctx, ret, exc):
    obs = args.get('observation')
    name = getattr(obs, 'name', None)
    if name not in tr.obs:
        return
    o = tr.obs[name]
    sp = tr.spec['obs'][name]
    last = o['checks'][-1] if o['checks'] else None
    rec = {'t': tr.now(), 'seq': tr.seq, 'check': last}
    if o['begin'] is not None:
        tr.violate('C08', 'observation_begun_twice', obs=name)
        tr.violate('C04', 'observation_begun_twice', obs=name)
    o['begin'] = rec
    o['status_seq'].append('RUNNING')
    tr.arrays_shadow += sp['demand']
    tr.pending_prov[name] = sp['ingest_demand']
    tr.cnt['c08_admissions'] += 1
    # ---- the admission oracle (C08)
    now = tr.now()
    if now + EPS < sp['start']:
        tr.violate('C08', 'started_early', obs=name, start=sp['start'])
    if last is None or last.get('seq') != tr.seq or last.get('ret') is not True:
        tr.violate('C08', 'begun_without_capacity_check', obs=name)
        return
    S = tr.spec
    if sp['demand'] > S['total_arrays'] - last['arrays']:
        tr.violate('C08', 'arrays_overcommitted', obs=name, demand=sp['demand'],
                   in_use=last['arrays'], total=S['total_arrays'])
    vol = sp['rate'] * sp['duration']
    avail_true = last['n_available'] - last['pending_prov']
    clauses = []
    if avail_true < sp['ingest_demand']:
        clauses.append('machines')
    if last['n_ingest'] + last['pending_prov'] + sp['ingest_demand'] > S['max_ingest']:
        clauses.append('ingest_limit')
    if last['hot_free'] < vol - 1e-6:
        clauses.append('hot_room')
    if last['cold_free'] < vol - 1e-6:
        clauses.append('cold_room')
    for c in clauses:
        tr.violate('C08', 'admitted_without_' + c, obs=name, snapshot=dict(last),
                   ingest_demand=sp['ingest_demand'], volume=vol,
                   same_step_admissions=len(tr.pending_prov) - 1)
        if c in ('hot_room', 'cold_room'):
            # C07: admission only if the whole volume fits
            tr.violate('C07', 'admitted_without_' + c, obs=name, volume=vol,
                       hot_free=last['hot_free'], cold_free=last['cold_free'])
    tr.cnt['c07_admission_evals'] += 1


def _finish_after(tr, tel, args, ctx, ret, exc):
    obs = args.get('observation')
    name = getattr(obs, 'name', None)
    if name not in tr.obs:
        return
    o = tr.obs[name]
    sp = tr.spec['obs'][name]
    if o['finish'] is not None:
        tr.violate('C08', 'observation_finished_twice', obs=name)
    if o['begin'] is None:
        tr.violate('C08', 'finished_before_begun', obs=name)
    o['finish'] = {'t': tr.now(), 'seq': tr.seq}
    o['status_seq'].append('FINISHED')
    tr.arrays_shadow -= sp['demand']


def _deposit_before(tr, hot, args):
    return {'free0': hot.current_capacity}


def _deposit_after(tr, hot, args, ctx, ret, exc):
    cur = tr.cur
    name = cur.get('obs') if (cur and cur.get('kind') == 'ingest_stream') else None
    rate = args.get('incoming_datarate')
    d = {'t': tr.now(), 'seq': tr.seq, 'amount': rate,
         'delta': ctx['free0'] - hot.current_capacity, 'exc': type(exc).__name__ if exc else None}
    if exc is not None:
        tr.cnt['c07_overrate_rejections'] += 1
        if name in tr.obs:
            tr.obs[name].setdefault('deposit_rejected', []).append(d)
        return
    if name is None or name not in tr.obs:
        tr.violate('C07', 'deposit_outside_ingest', amount=rate)
        return
    sp = tr.spec['obs'][name]
    tr.obs[name]['deposits'].append(d)
    tr.H[name] += sp['rate']
    if abs(rate - sp['rate']) > 1e-9 or abs(d['delta'] - sp['rate']) > 1e-9:
        tr.violate('C07', 'deposit_amount', obs=name, amount=rate, delta=d['delta'],
                   expected=sp['rate'])
    if len(tr.obs[name]['deposits']) > sp['duration']:
        tr.violate('C07', 'too_many_deposits', obs=name, n=len(tr.obs[name]['deposits']),
                   duration=sp['duration'])
    tr.cnt['c07_deposits'] += 1


def _remove_before(tr, hot, args):
    return {'free0': hot.current_capacity}


def _remove_after(tr, hot, args, ctx, ret, exc):
    obs = args.get('observation')
    name = getattr(obs, 'name', None)
    if name not in tr.obs or exc is not None:
        return
    delta = hot.current_capacity - ctx['free0']
    sp = tr.spec['obs'][name]
    vol = sp['rate'] * sp['duration']
    if ret:
        if tr.obs[name]['freed'] is not None:
            tr.violate('C07', 'freed_twice', obs=name)
        tr.obs[name]['freed'] = {'t': tr.now(), 'seq': tr.seq, 'delta': delta}
        if abs(delta - vol) > 1e-6:
            tr.violate('C07', 'freed_amount', obs=name, freed=delta, expected=vol)
        if abs(tr.H[name] - vol) > 1e-6:
            tr.violate('C07', 'freed_while_not_fully_resident', obs=name, resident=tr.H[name],
                       expected=vol)
        tr.H[name] = 0.0
        tr.cnt['c07_frees'] += 1
    else:
        if abs(delta) > 1e-9:
            tr.violate('C07', 'refused_remove_changed_space', obs=name, delta=delta)
        if tr.H[name] > 1e-9 and tr.obs[name]['freed'] is None:
            # remove() is only called when the observation's workflow has completed
            tr.violate('C07', 'workflow_finished_but_data_not_freed', obs=name,
                       resident=tr.H[name])


def _mark_finished_after(tr, buf, args, ctx, ret, exc):
    obs = args.get('observation')
    name = getattr(obs, 'name', None)
    if name in tr.obs and exc is None and ret:
        tr.obs[name]['wf_finished'] = {'t': tr.now(), 'seq': tr.seq}
        tr.queue_shadow.discard(name)


def _tier_before(tr, tier, args):
    return {'free0': tier.current_capacity}


def _tier_after(which, op):
    # which: 'hot'|'cold', op: 'out' (transfer_observation) | 'in' (receive_observation)
    def f(tr, tier, args, ctx, ret, exc):
        obs = args.get('observation')
        name = getattr(obs, 'name', None)
        if exc is not None:
            return
        delta = tier.current_capacity - ctx['free0']   # + means space freed
        shadow = tr.H if which == 'hot' else tr.C
        shadow[name] -= delta
        cur = tr.cur
        if cur and cur.get('kind') in ('move_h2c', 'move_c2h'):
            cur['obs'] = name
            if cur.get('size') is None:
                cur['size'] = args.get('residual_data')
            cur['steps'].append({'t': tr.now(), 'tier': which, 'op': op, 'delta': delta,
                                 'residual_in': args.get('residual_data'), 'residual_out': ret})
        if op == 'in' and ret == 0:
            tr.stored_shadow.add(name)
        if op == 'out' and ret == 0 and cur and cur.get('kind') in ('move_h2c', 'move_c2h'):
            # 'out' is the second call of a transfer step in both directions: this is the
            # instant at which the move is complete (the generator itself returns one step
            # later, when another move may already have picked the observation up again)
            try:
                bs = probe.buffer_state(tr.sim.buffer) if tr.sim is not None else None
            except ProbeUnavailable:
                bs = None
            if bs is not None:
                cur['final_state'] = {'hot_stored': list(bs['hot_stored']),
                                      'cold_stored': list(bs['cold_stored']),
                                      'hot_transfer': bs['hot_transfer'],
                                      'cold_transfer': bs['cold_transfer'], 't': tr.now()}
        tr.cnt['c18_tier_calls'] += 1
    return f


def _obs_for_transfer_after(tr, tier, args, ctx, ret, exc):
    name = getattr(ret, 'name', None)
    tr.stored_shadow.discard(name)
    cur = tr.cur
    if cur and cur.get('kind') in ('move_h2c', 'move_c2h'):
        cur['obs'] = name
        cur['size'] = getattr(ret, 'total_data_size', None)


def _next_for_processing_after(tr, hot, args, ctx, ret, exc):
    name = getattr(ret, 'name', None)
    if name in tr.obs:
        tr.stored_shadow.discard(name)
        if tr.obs[name]['handed'] is not None:
            tr.violate('C04', 'observation_handed_twice', obs=name)
        tr.obs[name]['handed'] = {'t': tr.now(), 'seq': tr.seq}


def _prov_batch_before(tr, cluster, args):
    try:
        return {'avail0': probe.pools(cluster)['available'], 'n0': cluster.num_provisioned_obs}
    except (ProbeUnavailable, AttributeError):
        return None


def _prov_batch_after(tr, cluster, args, ctx, ret, exc):
    name = args.get('name')
    if ctx is None:
        return
    try:
        p = probe.pools(cluster)
    except ProbeUnavailable:
        return
    gained = [m for m in ctx['avail0'] if m not in p['available']]
    rec = {'obs': name, 't': tr.now(), 'seq': tr.seq, 'size_req': args.get('size'),
           'machines': gained, 'exc': type(exc).__name__ if exc else None,
           'avail0': len(ctx['avail0']), 'live_before': len(tr.owner), 'ret': ret}
    tr.reservations.append(rec)
    if exc is None and gained:
        if name in tr.owner:
            tr.violate('C09', 'second_reservation_for_observation', obs=str(name))
        tr.owner[name] = rec
    tr.cnt['c09_provisions'] += 1


def _release_batch_after(tr, cluster, args, ctx, ret, exc):
    name = args.get('observation')
    if name in tr.owner:
        try:
            p = probe.pools(cluster)
        except ProbeUnavailable:
            return
        if name not in p['idle']:
            rec = tr.owner.pop(name)
            rec['released'] = {'t': tr.now(), 'seq': tr.seq}
            missing = [m for m in rec['machines'] if m not in p['available']]
            if missing:
                tr.violate('C09', 'released_machines_not_available', obs=str(name),
                           missing=missing)
            tr.cnt['c09_releases'] += 1


def _pcs_before(tr, sched, args):
    schedule = args.get('schedule') or {}
    props = []
    for task, machine in schedule.items():
        mid = _mid(machine)
        try:
            occ = sched.cluster.is_occupied(machine)
        except Exception:
            occ = None
        props.append({'task': task.id, 'machine': mid, 'status': str(task.task_status),
                      'occupied': occ,
                      'busy_shadow': bool(tr.active.get(mid)) or bool(tr.alloc_live.get(mid)),
                      'in_cluster': mid in tr.spec['machines']})
    return {'t': tr.now(), 'seq': tr.seq, 'wf': args.get('workflow_id'), 'props': props,
            'obj': schedule, 'keys': list(schedule.keys())}


def _pcs_after(tr, sched, args, ctx, ret, exc):
    left = set()
    try:
        left = set(t.id for t in ctx['obj'].keys())
    except Exception:
        pass
    seen = set()
    for pr in ctx['props']:
        pr['executed'] = pr['task'] not in left
        pr['dup_in_round'] = pr['machine'] in seen
        # duplicates are decided in est order by the scheduler; we only count
        seen.add(pr['machine'])
        if pr['busy_shadow']:
            tr.cnt['c01_busy_proposals'] += 1
            if not pr['executed']:
                tr.cnt['c01_busy_skipped'] += 1
    ctx.pop('obj', None)
    ctx.pop('keys', None)
    ctx['exc'] = type(exc).__name__ if exc else None
    tr.proposals.append(ctx)


def install():
    """Wrap the real classes (idempotent)."""
    global _INSTALLED
    if _INSTALLED:
        return
    from topsim.core.task import Task
    from topsim.core.cluster import Cluster
    from topsim.core.scheduler import Scheduler
    from topsim.core.buffer import Buffer, HotBuffer, ColdBuffer
    from topsim.user.telescope import Telescope

    wrap_gen(Task, 'do_work', 'do_work', _dowork_enter, _dowork_leave)
    wrap_gen(Cluster, 'allocate_task_to_cluster', 'alloc', _alloc_enter, _alloc_leave)
    wrap_gen(Cluster, 'provision_ingest_resources', 'prov_ingest', _prov_ingest_enter,
             _prov_ingest_leave)
    wrap_gen(Scheduler, 'allocate_tasks', 'allocate_tasks', _alloc_tasks_enter, _alloc_tasks_leave)
    wrap_gen(Scheduler, 'allocate_ingest', 'allocate_ingest', _alloc_ingest_enter, _alloc_ingest_leave)
    wrap_gen(Buffer, 'ingest_data_stream', 'ingest_stream', _ingest_stream_enter, _ingest_stream_leave)
    wrap_gen(Buffer, 'move_hot_to_cold', 'move_h2c', _move_enter('h2c'), _move_leave)
    wrap_gen(Buffer, 'move_cold_to_hot', 'move_c2h', _move_enter('c2h'), _move_leave)

    wrap_fn(Scheduler, 'check_ingest_capacity', 'check_capacity', _check_before, _check_after)
    wrap_fn(Scheduler, '_process_current_schedule', 'process_schedule', _pcs_before, _pcs_after)
    wrap_fn(Telescope, 'begin_observation', 'begin_obs', None, _begin_after)
    wrap_fn(Telescope, 'finish_observation', 'finish_obs', None, _finish_after)
    wrap_fn(Buffer, 'mark_observation_finished', 'mark_finished', None, _mark_finished_after)
    wrap_fn(HotBuffer, 'process_incoming_data_stream', 'deposit', _deposit_before, _deposit_after)
    wrap_fn(HotBuffer, 'remove', 'hot_remove', _remove_before, _remove_after)
    wrap_fn(HotBuffer, 'transfer_observation', 'hot_out', _tier_before, _tier_after('hot', 'out'))
    wrap_fn(HotBuffer, 'receive_observation', 'hot_in', _tier_before, _tier_after('hot', 'in'))
    wrap_fn(ColdBuffer, 'transfer_observation', 'cold_out', _tier_before, _tier_after('cold', 'out'))
    wrap_fn(ColdBuffer, 'receive_observation', 'cold_in', _tier_before, _tier_after('cold', 'in'))
    wrap_fn(HotBuffer, 'observation_for_transfer', 'hot_pick', None, _obs_for_transfer_after)
    wrap_fn(ColdBuffer, 'observation_for_transfer', 'cold_pick', None, _obs_for_transfer_after)
    wrap_fn(HotBuffer, 'next_observation_for_processing', 'hot_next', None, _next_for_processing_after)
    wrap_fn(Cluster, 'provision_batch_resources', 'prov_batch', _prov_batch_before, _prov_batch_after)
    wrap_fn(Cluster, 'release_batch_resources', 'release_batch', None, _release_batch_after)
    _INSTALLED = True
