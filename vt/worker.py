"""Worker process: runs one shard of a property's jobs and writes one JSON file.

usage: python -B -m vt.worker <PROP> <tier> <seed> <shard> <nshards> <out.json> [scale]
"""
import json
import os
import signal
import sys
import time
import traceback
from collections import Counter

from . import campaign, gen, findings
from .common import case_hash, use_repo

CASE_TIMEOUT = int(os.environ.get('VERIF_CASE_TIMEOUT', '150'))
CAP_BOUND = 150            # horizon cap for campaigns that do not decide termination


class CaseTimeout(BaseException):     # not an Exception: must not be swallowed by probes
    pass


def _alarm(signum, frame):
    raise CaseTimeout()


def run_sim_job(job, prop, case=None):
    from . import sim, oracles
    if case is None:
        case = campaign.make_sim_case(job)
    if case is None:
        return None
    B = gen.serial_bound(case)
    plan = campaign.SIM_PLANS.get(prop, {})
    full = plan.get('full_bound') and not case.get('adversary') and not case.get('permute')
    bound = B if full else min(B, CAP_BOUND)
    res, tr = sim.run_case(case, bound=bound, schedule=case.get('pause'))
    if case.get('pause'):
        tr.cnt['paused_simulation_cases'] += 1
    oracles.evaluate(case, tr, res, bound=(B if full else None))
    out = {
        'hash': case_hash(case), 'case': case, 'outcome': res['outcome'],
        'viol': [v for v in tr.viol if v['prop'] == prop],
        'other': Counter((v['prop'] + ':' + v['clause']) for v in tr.viol if v['prop'] != prop),
        'cnt': tr.cnt, 'inconclusive': list(tr.inconclusive),
        'nontrivial': bool(campaign.nontrivial(prop, case, tr, res)),
        'events': res.get('n_events', 0), 'sigs': tr.sigs, 'states': tr.states,
        'swaps': res.get('n_swaps', 0), 'T': res.get('T'),
    }
    if res['outcome'] == 'error':
        w = res['exc'].get('where') or {}
        out['outcome'] = 'error:%s@%s' % (res['exc']['type'], w.get('func'))
    return out


def run_job(job, prop, case=None):
    kind = job['kind']
    if kind == 'sim':
        return run_sim_job(job, prop, case)
    if kind == 'hist':
        from . import clusterhist
        return clusterhist.run_job(job, prop, case)
    if kind in ('micro06', 'plan14', 'delay15', 'units16', 'move18', 'flag15'):
        from . import direct
        return direct.run_job(job, prop, case)
    if kind in ('hashdiff', 'pause', 'refusal'):
        from . import diff
        return diff.run_job(job, prop, case)
    raise ValueError('unknown job kind %r' % kind)


RAISE_IS_VIOLATION = ('C05', 'C06', 'C14', 'C15', 'C16', 'C18')


def _raised_by_topsim(e, job, prop):
    """An exception that escaped from topsim itself (innermost frame inside the repository's
    package) while the harness was calling it with valid input: for the properties whose
    functions must not fail on valid input this is a violation, not a harness failure."""
    import traceback as tb
    from . import sim
    from .common import REPO
    if prop not in RAISE_IS_VIOLATION:
        return None
    frames = tb.extract_tb(e.__traceback__)
    root = os.path.join(os.path.abspath(REPO), 'topsim')
    if not frames or not os.path.abspath(frames[-1].filename).startswith(root):
        return None
    where = sim._innermost_topsim_frame(e) or {}
    case = None
    try:
        case = campaign.make_sim_case(job) if job['kind'] == 'sim' else None
    except Exception:
        pass
    v = {'prop': prop, 'clause': 'topsim_raised_on_valid_input', 'exc': type(e).__name__,
         'func': where.get('func'), 'file': where.get('file'), 'msg': str(e)[:160],
         'stage': job['kind']}
    return {'hash': case_hash(job), 'case': case or {'job': job}, 'viol': [v], 'cnt': {},
            'outcome': 'raised:%s@%s' % (type(e).__name__, where.get('func')), 'nontrivial': False}


def _livelock_retry(job, prop, real_stdout, devnull):
    case = campaign.make_sim_case(job)
    sys.stdout = devnull
    signal.alarm(60)
    try:
        run_job(job, prop)
        return None
    except CaseTimeout:
        v = {'prop': prop, 'clause': 'livelock_inside_one_event', 'stage': 'sim',
             'msg': 'no return within 150 s and again within 60 s when re-run alone'}
        return {'hash': case_hash(case), 'case': case, 'viol': [v], 'cnt': {},
                'outcome': 'livelock', 'nontrivial': False}
    except Exception:
        return None
    finally:
        signal.alarm(0)
        sys.stdout = real_stdout


def main(argv):
    prop, tier, seed, shard, nshards, outpath = argv[:6]
    seed, shard, nshards = int(seed), int(shard), int(nshards)
    scale = float(argv[6]) if len(argv) > 6 else 1.0
    use_repo()
    from . import cover
    covering = cover.start(prop)
    jobs = campaign.all_jobs(prop, tier, seed, scale)
    mine = jobs[shard::nshards]
    agg = {'prop': prop, 'tier': tier, 'seed': seed, 'shard': shard, 'jobs': len(mine),
           'evaluations': 0, 'hashes': set(), 'nontrivial_hashes': set(), 'cnt': Counter(),
           'events': 0, 'sigs': set(), 'states': set(), 'inconclusive': Counter(),
           'violations': [], 'vcounts': Counter(), 'samples': [], 'outcomes': Counter(),
           'other': Counter(), 'timeouts': 0, 'swaps': 0, 'kinds': Counter()}
    signal.signal(signal.SIGALRM, _alarm)
    devnull = open(os.devnull, 'w')
    real_stdout = sys.stdout
    t0 = time.time()
    per_mech = Counter()
    for job in mine:
        sys.stdout = devnull
        # a job of these kinds is a batch (many sequences / several interpreters), not one case
        signal.alarm(CASE_TIMEOUT * (10 if job['kind'] in ('hashdiff', 'hist', 'plan14', 'units16', 'move18') else 1))
        try:
            out = run_job(job, prop)
        except CaseTimeout:
            agg['timeouts'] += 1
            out = None
            if prop == 'C05' and job['kind'] == 'sim':
                # a simulation normally takes well under a second: run it once more alone; if it
                # hangs again this is a deterministic livelock, which C05 forbids
                out = _livelock_retry(job, prop, real_stdout, devnull)
            if out is None:
                agg['inconclusive']['watchdog'] += 1
                continue
        except Exception as e:
            out = _raised_by_topsim(e, job, prop)
            if out is None:     # harness failure: inconclusive, never a verdict
                agg['inconclusive']['harness: %s: %s' % (type(e).__name__, str(e)[:120])] += 1
                agg.setdefault('harness_tb', traceback.format_exc()[-1500:])
                continue
        finally:
            signal.alarm(0)
            sys.stdout = real_stdout
        if out is None:
            continue
        agg['evaluations'] += out.get('evaluations', 1)
        agg['kinds'][job['kind']] += 1
        agg['hashes'].add(out['hash'])
        if out.get('nontrivial'):
            agg['nontrivial_hashes'].add(out['hash'])
        for h in out.get('extra_nontrivial', ()):
            agg['nontrivial_hashes'].add(h)
            agg['hashes'].add(h)
        agg['cnt'].update(out.get('cnt') or {})
        agg['events'] += out.get('events', 0)
        agg['swaps'] += out.get('swaps', 0)
        if len(agg['sigs']) < 20000:
            agg['sigs'].update(out.get('sigs') or ())
        if len(agg['states']) < 20000:
            agg['states'].update(out.get('states') or ())
        for m in out.get('inconclusive') or ():
            agg['inconclusive'][m] += 1
        agg['outcomes'][out.get('outcome')] += 1
        agg['other'].update(out.get('other') or {})
        if len(agg['samples']) < 2 and out.get('sample', out.get('case')) is not None:
            agg['samples'].append({'job': job, 'case': out.get('sample', out.get('case')),
                                   'outcome': out.get('outcome')})
        for v in out.get('viol') or ():
            k = findings.mech_key(v)
            agg['vcounts'][k] += 1
            per_mech[k] += 1
            if per_mech[k] <= 3:
                vv = dict(v)
                own = vv.pop('history', None)
                vv['witness'] = {'job': job,
                                 'case': own or out.get('witness', out.get('case'))}
                agg['violations'].append(vv)
    agg['wall'] = time.time() - t0
    agg['cover'] = cover.report() if covering else {}
    for k in ('hashes', 'nontrivial_hashes', 'sigs'):
        agg[k] = sorted(agg[k])
    agg['states'] = len(agg['states'])
    for k in ('cnt', 'inconclusive', 'vcounts', 'outcomes', 'other', 'kinds'):
        agg[k] = dict(agg[k])
    with open(outpath, 'w') as f:
        json.dump(agg, f, default=str)


if __name__ == '__main__':
    main(sys.argv[1:])
