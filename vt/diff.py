"""Differential monitors.

hashdiff (C10): the same case run twice in this interpreter and once in each
of H fresh interpreters started with different PYTHONHASHSEED values;
canonical dumps of the per-step table (without *-algtime), task table and
event log must be identical.

pause (C11): reference run start() versus start(k)+resume(...) for several
pause points k and random splits; identical boundary trajectory, tables and
event log.   refusal (C11): start() twice / resume() before start().
"""
import json
import math
import os
import random
import shutil
import subprocess
import sys

from . import campaign, gen, probe
from .common import WORK, VERIF, PYTHON, REPO, case_hash, use_repo, ProbeUnavailable


def _clean(v):
    if v is None:
        return None
    try:
        if isinstance(v, float) and math.isnan(v):
            return None
    except TypeError:
        pass
    if hasattr(v, 'item'):
        try:
            v = v.item()
        except Exception:
            v = str(v)
    if isinstance(v, float) and v == int(v) and abs(v) < 1e15:
        return int(v)
    if isinstance(v, (int, float, str, bool)):
        return v
    return str(v)


def dump_df(df, drop_algtime=True):
    if df is None:
        return {'cols': [], 'rows': []}
    cols = [c for c in df.columns if not (drop_algtime and str(c).endswith('-algtime'))]
    cols_sorted = sorted(str(c) for c in cols)
    rows = []
    data = {str(c): df[c].tolist() for c in cols}
    idx = [str(i) for i in df.index.tolist()]
    for i in range(len(df)):
        rows.append([idx[i]] + [_clean(data[c][i]) for c in cols_sorted])
    return {'cols': ['<index>'] + cols_sorted, 'rows': rows}


def canonical(res):
    return {'df': dump_df(res.get('df')), 'tasks': dump_df(res.get('tasks'), False),
            'events': dump_df(res.get('events'), False), 'outcome': res.get('outcome'),
            'T': _clean(res.get('T')),
            'exc': (res.get('exc') or {}).get('type')}


def first_diff(a, b):
    """-> description of the first differing cell between two canonical dumps."""
    for tab in ('outcome', 'exc', 'T'):
        if a.get(tab) != b.get(tab):
            return {'table': tab, 'a': a.get(tab), 'b': b.get(tab)}
    for tab in ('df', 'tasks', 'events'):
        ta, tb = a[tab], b[tab]
        if ta['cols'] != tb['cols']:
            return {'table': tab, 'what': 'columns', 'a': ta['cols'], 'b': tb['cols']}
        if tab == 'tasks':
            ra = sorted(ta['rows'], key=lambda r: str(r[0]))
            rb = sorted(tb['rows'], key=lambda r: str(r[0]))
            # row order of the task table is part of the output too
            if [r[0] for r in ta['rows']] != [r[0] for r in tb['rows']] and ra == rb:
                return {'table': tab, 'what': 'row order',
                        'a': [r[0] for r in ta['rows']][:8], 'b': [r[0] for r in tb['rows']][:8]}
        else:
            ra, rb = ta['rows'], tb['rows']
        for i in range(max(len(ra), len(rb))):
            if i >= len(ra) or i >= len(rb):
                return {'table': tab, 'what': 'row count', 'a': len(ra), 'b': len(rb),
                        'first_extra_row': (ra[i] if i < len(ra) else rb[i])}
            if ra[i] != rb[i]:
                for j, c in enumerate(ta['cols']):
                    if ra[i][j] != rb[i][j]:
                        return {'table': tab, 'row': i, 'column': c, 'a': ra[i][j], 'b': rb[i][j]}
    return None


# ----------------------------------------------------------------------
# C10

def gen_diff_case(rng, tier):
    for _ in range(40):
        st = rng.choice(['contend', 'contend', 'simul', 'benign'])
        pairing = rng.choice(gen.PAIRINGS)
        delays = rng.choice(['none', 'none', 'fixed', 'model'])
        case = gen.gen_case(rng, st, pairing, tier=tier, delays=delays,
                            wide=(rng.random() < 0.7))
        if delays == 'model':
            # keep zero-runtime tasks away from the real delay model (its own defect, C15)
            for o in case['observations']:
                slow = min(m['flops'] for m in case['machines'])
                for nd in o['workflow']['nodes']:
                    if nd['comp'] < slow:
                        nd['comp'] = slow * 2
        if gen.feasible(case):
            return case
    return None


def run_one_for_diff(case, workdir, shared=None):
    from . import sim
    B = gen.serial_bound(case)
    res, tr = sim.run_case(case, bound=min(B, 120), workdir=workdir, shared=shared)
    return canonical(res), tr


def child_main(argv):
    """python -m vt.diff child <infile> <outfile>: run the cases, dump canonicals."""
    use_repo()
    infile, outfile = argv
    with open(infile) as f:
        items = json.load(f)
    outs = []
    devnull = open(os.devnull, 'w')
    real = sys.stdout
    for it in items:
        sys.stdout = devnull
        try:
            can, tr = run_one_for_diff(it['case'], it['workdir'])
            outs.append({'ok': True, 'canonical': can})
        except Exception as e:
            outs.append({'ok': False, 'err': '%s: %s' % (type(e).__name__, str(e)[:200])})
        finally:
            sys.stdout = real
    with open(outfile, 'w') as f:
        json.dump(outs, f)


def hashdiff(job, prop, case=None):
    rng = random.Random(job['seed'])
    out = {'hash': case_hash(job), 'case': None, 'viol': [], 'cnt': {}, 'inconclusive': [],
           'nontrivial': False, 'events': 0, 'outcome': 'hashdiff', 'evaluations': 0,
           'extra_nontrivial': []}
    cases = [case] if case is not None else \
        [c for c in (gen_diff_case(rng, job['tier']) for _ in range(job['n'])) if c]
    H = job.get('H', 4)
    seeds = [str(h) for h in range(1, H)]
    if H >= 8:
        seeds[-1] = 'random'
    base = os.path.join(WORK, 'hd%d_%d' % (os.getpid(), job['i']))
    os.makedirs(base, exist_ok=True)
    try:
        items = []
        refs = []
        for n, c in enumerate(cases):
            wd = os.path.join(base, 'case%d' % n)
            shared = {}
            a, tr = run_one_for_diff(c, wd, shared)
            b, _ = run_one_for_diff(c, wd, shared)
            out['evaluations'] += 2
            out['events'] += tr.env.n_events if tr.env is not None else 0
            contended = tr.cnt.get('alg_contended_rounds', 0) > 0
            out['cnt']['c10_runs'] = out['cnt'].get('c10_runs', 0) + 2
            if contended:
                out['extra_nontrivial'].append(case_hash(c))
                out['cnt']['c10_contended_cases'] = out['cnt'].get('c10_contended_cases', 0) + 1
            d = first_diff(a, b)
            if d is not None:
                out['viol'].append({'prop': 'C10', 'clause': 'differs_within_one_process',
                                    'kind': 'same_process', 'diff': d, 'history': c})
            refs.append(a)
            items.append({'case': c, 'workdir': wd})
            if out['case'] is None:
                out['case'] = c
        infile = os.path.join(base, 'in.json')
        with open(infile, 'w') as f:
            json.dump(items, f)
        for hs in seeds:
            outfile = os.path.join(base, 'out_%s.json' % hs)
            env = dict(os.environ)
            env.update({'PYTHONHASHSEED': hs, 'TQDM_DISABLE': '1', 'VERIF_REPO': REPO})
            try:
                r = subprocess.run([PYTHON, '-B', '-W', 'ignore', '-m', 'vt.diff', 'child',
                                    infile, outfile], cwd=VERIF, env=env, timeout=600,
                                   stdout=subprocess.DEVNULL, stderr=subprocess.PIPE)
            except subprocess.TimeoutExpired:
                out['inconclusive'].append('watchdog: hash-seed child')
                continue
            if r.returncode != 0 or not os.path.exists(outfile):
                out['inconclusive'].append('harness: hash-seed child failed: %s'
                                           % r.stderr.decode()[-200:])
                continue
            with open(outfile) as f:
                res = json.load(f)
            for c, ref, got in zip(cases, refs, res):
                if not got.get('ok'):
                    out['inconclusive'].append('harness: child case: %s' % got.get('err'))
                    continue
                out['evaluations'] += 1
                out['cnt']['c10_cross_process_comparisons'] = \
                    out['cnt'].get('c10_cross_process_comparisons', 0) + 1
                d = first_diff(ref, got['canonical'])
                if d is not None:
                    already = any(v.get('history') is c and v['clause'] == 'differs_across_hash_seeds'
                                  for v in out['viol'])
                    if not already:
                        out['viol'].append({
                            'prop': 'C10', 'clause': 'differs_across_hash_seeds',
                            'kind': 'hash_seed', 'hashseed_a': '0', 'hashseed_b': hs, 'diff': d,
                            'pairing_family': ('set_iterating' if c['pairing'] in
                                               ('batch', 'queue', 'dynamic') else 'list'),
                            'history': c})
        out['nontrivial'] = bool(out['extra_nontrivial'])
        if out['viol']:
            out['witness'] = out['viol'][0]['history']
        out['sample'] = out['case']
    finally:
        shutil.rmtree(base, ignore_errors=True)
    return out


# ----------------------------------------------------------------------
# C11

def _coterminating(case):
    ends = {}
    for o in case['observations']:
        e = o['start'] + o['duration']
        ends[e] = ends.get(e, 0) + 1
    last = max(ends)
    return ends[last] >= 3


def gen_pause_case(rng, tier):
    if rng.random() < 0.25:
        # a backlog at the end of the plan: >=3 observations whose ingests end in the same,
        # last step (the scheduler queues one observation per step)
        for _ in range(60):
            case = gen.gen_case(rng, 'simul', rng.choice(gen.PAIRINGS), tier=tier,
                                delays=rng.choice(['none', 'fixed']))
            if gen.feasible(case) and _coterminating(case):
                return case
    for _ in range(40):
        st = rng.choice(['benign', 'contend', 'simul', 'zero', 'benign'])
        pairing = rng.choice(gen.PAIRINGS)
        case = gen.gen_case(rng, st, pairing, tier=tier, delays=rng.choice(['none', 'fixed']))
        if gen.feasible(case):
            return case
    return None


def _traj(tr):
    return [{k: (list(v) if isinstance(v, tuple) else v) for k, v in b.items()}
            for b in tr.boundaries]


def pause(job, prop, case=None):
    from . import sim
    rng = random.Random(job['seed'])
    out = {'hash': None, 'case': None, 'viol': [], 'cnt': {}, 'inconclusive': [],
           'nontrivial': False, 'events': 0, 'outcome': 'pause', 'evaluations': 0,
           'extra_nontrivial': []}
    spec = None
    interleave_spec = None
    poke_spec = None
    if case is not None and 'pause_schedule' in case:
        spec = case['pause_schedule']
        interleave_spec = case.get('interleave')
        poke_spec = case.get('poke')
        case = case['case']
    if case is None:
        case = gen_pause_case(rng, job['tier'])
    if case is None:
        return None
    out['hash'] = case_hash(case)
    out['case'] = case
    B = gen.serial_bound(case)
    wd = os.path.join(WORK, 'pz%d_%d' % (os.getpid(), job['i']))   # same config path in all runs
    res0, tr0 = sim.run_case(case, bound=min(B, 100), workdir=wd)
    out['evaluations'] += 1
    out['events'] += res0.get('n_events', 0)
    if res0['outcome'] != 'completed':
        out['outcome'] = 'reference_' + str(res0['outcome'])
        return out            # the uninterrupted run itself does not complete: other properties
    T = int(res0['T'])
    ref = canonical(res0)
    traj0 = _traj(tr0)
    ev_times = set(int(r[ref['events']['cols'].index('time')])
                   for r in ref['events']['rows']) if ref['events']['rows'] else set()
    if spec is not None:
        scheds = [spec]
    else:
        ks = set([1, T - 1, T] if T > 1 else [1])
        interesting = sorted(set(t + d for t in ev_times for d in (1, 2) if 1 <= t + d <= T))
        pool = list(range(1, T + 1))
        if job['tier'] == 'thorough' and T <= 40:
            ks = set(pool)
        else:
            for _ in range(3):
                if interesting:
                    ks.add(rng.choice(interesting))
            while len(ks) < min(6, T):
                ks.add(rng.choice(pool))
        scheds = []
        for k in sorted(x for x in ks if 1 <= x <= T):
            rest = sorted(set(rng.sample(range(k + 1, T + 1), min(rng.randint(0, 3), T - k))
                              if T > k else []))
            if T > k and (not rest or rest[-1] != T):
                rest.append(T)
            scheds.append([k] + rest)
    other = case.get('_interleave_with') if isinstance(case, dict) else None
    for n_s, sch in enumerate(scheds):
        inter = None
        if spec is None and n_s % 3 == 1:
            inter = gen_pause_case(random.Random(job['seed'] + n_s), job['tier'])
        elif spec is not None and interleave_spec is not None:
            inter = interleave_spec
        poke = (n_s % 3 == 2) if spec is None else bool(poke_spec)
        res, tr = sim.run_case(case, bound=min(B, 100), schedule=sch, workdir=wd,
                               interleave=inter, poke=poke)
        if poke:
            out['cnt']['c11_poked_runs'] = out['cnt'].get('c11_poked_runs', 0) + 1
            for v in tr.viol:
                if v['prop'] == 'C11' and prop == 'C11':
                    out['viol'].append(dict(v, history={'case': case, 'pause_schedule': sch,
                                                        'poke': True}))
        if inter is not None:
            out['cnt']['c11_interleaved_runs'] = out['cnt'].get('c11_interleaved_runs', 0) + 1
        out['evaluations'] += 1
        out['cnt']['c11_paused_runs'] = out['cnt'].get('c11_paused_runs', 0) + 1
        k = sch[0]
        in_event_step = (k - 1) in ev_times
        if in_event_step:
            out['cnt']['c11_pause_after_event_step'] = \
                out['cnt'].get('c11_pause_after_event_step', 0) + 1
        wit = {'case': case, 'pause_schedule': sch, 'interleave': inter, 'poke': poke}
        got = canonical(res)
        d = first_diff(ref, got) if prop == 'C11' else None
        if d is not None:
            dup = (d.get('table') == 'events')
            out['viol'].append({'prop': 'C11', 'clause': 'paused_run_differs',
                                'kind': ('event_log' if dup else str(d.get('table'))),
                                'paused': True, 'schedule': sch, 'diff': d, 'T': T,
                                'history': wit})
        if prop == 'C12':
            from . import oracles
            n0 = len(tr.viol)
            oracles.c12(case, tr, res)
            for v in tr.viol[n0:]:
                if v['prop'] == 'C12':
                    v = dict(v)
                    v['paused'] = True
                    v['schedule'] = sch
                    v['history'] = wit
                    out['viol'].append(v)
            out['cnt']['c12_rows'] = out['cnt'].get('c12_rows', 0) + tr.cnt.get('c12_rows', 0)
            out['cnt']['c12_paused_runs'] = out['cnt'].get('c12_paused_runs', 0) + 1
            if tr.cnt.get('c12_two_ingests'):
                out['extra_nontrivial'].append(case_hash(case))
            continue
        if prop == 'C13':
            # the event-log oracle itself on the paused run
            from . import oracles
            n0 = len(tr.viol)
            oracles.c13(case, tr, res)
            for v in tr.viol[n0:]:
                if v['prop'] == 'C13':
                    v = dict(v)
                    v['paused'] = True
                    v['schedule'] = sch
                    v['history'] = wit
                    out['viol'].append(v)
            out['cnt']['c13_observations'] = out['cnt'].get('c13_observations', 0) + \
                tr.cnt.get('c13_observations', 0)
            out['cnt']['c13_entries_checked'] = out['cnt'].get('c13_entries_checked', 0) + \
                tr.cnt.get('c13_entries_checked', 0)
            out['cnt']['c13_paused_runs'] = out['cnt'].get('c13_paused_runs', 0) + 1
            continue
        tj = _traj(tr)
        if tj[:T + 1] != traj0[:T + 1]:
            i = next((i for i, (a, b) in enumerate(zip(traj0, tj)) if a != b),
                     min(len(tj), len(traj0)))
            out['viol'].append({'prop': 'C11', 'clause': 'state_trajectory_differs',
                                'kind': 'trajectory', 'paused': True, 'schedule': sch,
                                'boundary': i, 'history': wit})
    if tr0.cnt.get('c13_observations', 0) >= 0 and T >= 3:
        out['nontrivial'] = True
    if out['viol']:
        out['witness'] = out['viol'][0]['history']
    return out


def refusal(job, prop, case=None):
    """start() twice and resume() before start() are refused and change nothing."""
    from . import sim
    rng = random.Random(job['seed'])
    out = {'hash': None, 'case': None, 'viol': [], 'cnt': {}, 'inconclusive': [],
           'nontrivial': False, 'events': 0, 'outcome': 'refusal', 'evaluations': 0,
           'extra_nontrivial': []}
    spec = None
    if case is not None and 'k' in case:
        spec = case['k']
        case = case['case']
    if case is None:
        case = gen_pause_case(rng, job['tier'])
    if case is None:
        return None
    out['hash'] = case_hash(case)
    out['case'] = case
    k = spec if spec is not None else rng.randint(1, 6)
    if spec is None and rng.random() < 0.5:
        # pause point beyond the end of the run: the simulation has drained when start(k) returns
        r0, t0 = sim.run_case(case, bound=100)
        if r0['outcome'] == 'completed':
            k = int(r0['T']) + rng.choice([0, 1, 2])
    wit = {'case': case, 'k': k}

    def fingerprint(sim_, env, tr):
        snap = tr.snapshot()
        return json.dumps({
            'now': env.now, 'queue': len(env._queue), 'snap': {a: _clean(b) for a, b in snap.items()},
            'pools': probe.pools_key(probe.pools(sim_.cluster)),
            'running': bool(sim_.running), 'rows': len(sim_.monitor.df),
            'events': len(sim_.monitor.events)}, default=str, sort_keys=True)

    def drive(sim_, env, tr):
        r = {}
        f0 = fingerprint(sim_, env, tr)
        try:
            sim_.resume(5)
            r['resume_before_start'] = 'accepted'
        except RuntimeError:
            r['resume_before_start'] = 'refused'
        except Exception as e:
            r['resume_before_start'] = 'raised ' + type(e).__name__
        r['resume_changed'] = fingerprint(sim_, env, tr) != f0
        sim_.start(k)
        f1 = fingerprint(sim_, env, tr)
        try:
            sim_.start(k + 3)
            r['second_start'] = 'accepted'
        except RuntimeError:
            r['second_start'] = 'refused'
        except Exception as e:
            r['second_start'] = 'raised ' + type(e).__name__
        r['start_changed'] = fingerprint(sim_, env, tr) != f1
        try:
            sim_.resume(env.now + 1)          # resuming a started simulation is always allowed
            r['resume_after_start'] = 'accepted'
        except Exception as e:
            r['resume_after_start'] = 'raised ' + type(e).__name__
        f1 = fingerprint(sim_, env, tr)
        try:
            sim_.start()
            r['third_start'] = 'accepted'
        except RuntimeError:
            r['third_start'] = 'refused'
        except Exception as e:
            r['third_start'] = 'raised ' + type(e).__name__
        r['start3_changed'] = fingerprint(sim_, env, tr) != f1
        return r

    res, tr = sim.run_case(case, bound=200, driver=drive)
    out['evaluations'] += 1
    out['cnt']['c11_refusal_runs'] = 1
    r = res.get('driver')
    if r is None:
        out['outcome'] = 'refusal_' + str(res['outcome'])
        return out
    if r.get('resume_after_start') != 'accepted':
        out['viol'].append({'prop': 'C11', 'clause': 'resume_refused_after_start',
                            'kind': 'resume_after_start', 'result': r.get('resume_after_start'),
                            'history': wit})
    for key, chg in (('resume_before_start', 'resume_changed'), ('second_start', 'start_changed'),
                     ('third_start', 'start3_changed')):
        if r[key] != 'refused':
            out['viol'].append({'prop': 'C11', 'clause': 'not_refused', 'kind': key,
                                'result': r[key], 'history': wit})
        if r[chg]:
            out['viol'].append({'prop': 'C11', 'clause': 'refused_call_changed_state',
                                'kind': key, 'history': wit})
    out['nontrivial'] = True
    if out['viol']:
        out['witness'] = out['viol'][0]['history']
    return out


def run_job(job, prop, case=None):
    use_repo()
    k = job['kind']
    if k == 'hashdiff':
        return hashdiff(job, prop, case)
    if k == 'pause':
        return pause(job, prop, case)
    return refusal(job, prop, case)


if __name__ == '__main__':
    if len(sys.argv) >= 4 and sys.argv[1] == 'child':
        child_main(sys.argv[2:4])
