"""Per-property campaign plans: which jobs a check runs in each tier, how a job
is turned into a case and run, and what makes a run non-trivial for the
property.  Deterministic in (property, tier, VERIF_SEED)."""
import hashlib
import random

from . import gen

SKIPPABLE = ['busy', 'dup']
REJECTABLE = ['foreign', 'alien', 'rescheduled']

# strata weights, number of simulation cases per tier, extras
SIM_PLANS = {
    'C01': dict(n=(1600, 16000), strata={'contend': 4, 'simul': 3, 'zero': 1, 'benign': 1},
                adversary=0.55, permute=0.35, delays=('none', 'fixed', 'fixed', 'model')),
    'C02': dict(n=(1000, 10000), strata={'contend': 2, 'simul': 2, 'benign': 1, 'tight': 1,
                                       'refuse': 1, 'zero': 1, 'units': 1},
                adversary=0.3, permute=0.3),
    'C03': dict(n=(1600, 16000), strata={'benign': 3, 'contend': 3, 'zero': 1, 'units': 1},
                delays=('none', 'fixed', 'fixed', 'model')),
    'C04': dict(n=(1600, 16000), strata={'benign': 3, 'contend': 3, 'simul': 2, 'zero': 1,
                                       'units': 1, 'refuse': 1},
                adversary=0.3, adv_profiles=('skip',), delays=('none', 'fixed', 'model')),
    'C05': dict(n=(1400, 14000), strata={'tight': 3, 'refuse': 3, 'simul': 3, 'contend': 3,
                                       'benign': 1, 'zero': 1, 'units': 1},
                full_bound=True),
    'C06': dict(n=(800, 8000), strata={'zero': 3, 'benign': 2, 'contend': 1, 'units': 2},
                delays=('none', 'fixed', 'model')),
    'C07': dict(n=(1600, 16000), strata={'benign': 3, 'units': 2, 'tight': 2, 'simul': 2,
                                       'contend': 1}, overrate=0.12),
    'C08': dict(n=(1600, 16000), strata={'simul': 4, 'contend': 3, 'refuse': 2, 'benign': 2,
                                         'units': 2}),
    'C09': dict(n=(1600, 16000), strata={'contend': 4, 'simul': 3, 'benign': 1},
                pairings=('batch',), adversary=0.2, adv_profiles=('reject_foreign',),
                permute=0.3),
    'C12': dict(n=(1600, 16000), strata={'simul': 4, 'contend': 3, 'benign': 2, 'tight': 1,
                                       'units': 1}),
    'C13': dict(n=(1600, 16000), strata={'simul': 3, 'contend': 2, 'benign': 3, 'zero': 1,
                                         'units': 1}),
    'C15': dict(n=(1400, 14000), strata={'benign': 3, 'contend': 2, 'zero': 1},
                delays=('fixed',), pairings=('batch', 'queue', 'dynamic', 'greedy', 'greedy'),
                static_future=0.7),
    'C17': dict(n=(1600, 16000), strata={'contend': 4, 'simul': 3, 'benign': 2},
                pairings=('dynamic',), delays=('none', 'fixed', 'model')),
    'C18': dict(n=(600, 6000), strata={'tight': 1}),
    'C19': dict(n=(1200, 12000), strata={'contend': 2, 'simul': 2, 'benign': 2, 'tight': 1,
                                       'refuse': 1, 'zero': 1}),
}


def sub_seed(*parts):
    h = hashlib.sha1(('|'.join(str(p) for p in parts)).encode()).hexdigest()
    return int(h[:12], 16)


def _weighted(rng, weights):
    items = sorted(weights.items())
    tot = sum(w for _, w in items)
    x = rng.random() * tot
    for k, w in items:
        x -= w
        if x <= 0:
            return k
    return items[-1][0]


def sim_jobs(prop, tier, seed, scale=1.0):
    plan = SIM_PLANS[prop]
    n = plan['n'][0 if tier == 'quick' else 1]
    n = max(1, int(n * scale))
    return [{'kind': 'sim', 'prop': prop, 'tier': tier, 'i': i,
             'seed': sub_seed('sim', prop, tier, seed, i)} for i in range(n)]


def make_sim_case(job):
    """Deterministically generate the case of a simulation job."""
    prop, tier = job['prop'], job['tier']
    plan = SIM_PLANS[prop]
    rng = random.Random(job['seed'])
    for attempt in range(40):
        st = _weighted(rng, plan['strata'])
        pairing = rng.choice(plan.get('pairings', gen.PAIRINGS))
        delays = rng.choice(plan.get('delays', ('none', 'none', 'fixed')))
        unit = None
        if st == 'units':
            unit = rng.choice(['minutes', 'hours', 60, 7, 3600, 'seconds'])
        case = gen.gen_case(rng, st, pairing, tier=tier, delays=delays, unit=unit)
        if plan.get('overrate') and rng.random() < plan['overrate']:
            # an observation above the buffer's maximum ingest rate: must be rejected
            o = rng.choice(case['observations'])
            m = gen.multiplier(case['timestep'])
            case['buffer']['hot']['max_ingest_rate'] = max(0, o['rate'] - rng.choice([1, 1, 2]))
            case['overrate'] = True
            return case
        if not gen.feasible(case):
            continue
        if case.get('static') and plan.get('static_future') and \
                rng.random() < plan['static_future']:
            # only a delayed task can turn the schedule DELAYED when the plan's estimate lies
            # ahead of the clock
            case['static_est'] = 'future'
        adv_p = plan.get('adversary', 0)
        if adv_p and rng.random() < adv_p:
            profs = plan.get('adv_profiles', ('skip', 'skip', 'reject'))
            which = rng.choice(profs)
            if which == 'skip':
                profile = list(SKIPPABLE)
            elif which == 'reject_foreign':
                profile = ['foreign']
            else:
                profile = rng.sample(REJECTABLE, rng.randint(1, 3)) + \
                    (list(SKIPPABLE) if rng.random() < 0.5 else [])
            case['adversary'] = {'profile': profile, 'seed': rng.randint(0, 10 ** 6),
                                 'prob': rng.choice([0.2, 0.35, 0.6])}
        if tier == 'thorough' and plan.get('permute') and rng.random() < plan['permute']:
            case['permute'] = rng.randint(0, 10 ** 6)
        if not plan.get('full_bound') and not case.get('adversary') and not case.get('permute') \
                and rng.random() < 0.12:
            # the same properties must hold when the run is paused and resumed
            k = rng.randint(1, 15)
            pts = sorted(set(k + rng.randint(1, 12) for _ in range(rng.randint(0, 2))))
            case['pause'] = [k] + pts + ['end']
        return case
    return None


# ----------------------------------------------------------------------
# non-triviality rules, measured on the run

def nontrivial(prop, case, tr, res):
    c = tr.cnt
    if prop == 'C01':
        return c.get('c01_machines_reused', 0) >= 1 and c.get('c01_two_machines_busy', 0) >= 1
    if prop == 'C02':
        kinds = set()
        for s in tr.states:
            if s[0]:
                kinds.add('a')
            if s[1]:
                kinds.add('i')
            if s[2]:
                kinds.add('o')
            if any(x > 0 for x in s[3]):
                kinds.add('r')
        return len(kinds) >= 3
    if prop == 'C03':
        return c.get('c03_positive_waits', 0) >= 1 and c.get('c03_same_edges', 0) >= 1
    if prop == 'C04':
        return res['outcome'] == 'completed' and c.get('c04_overlapping_workflows', 0) >= 1
    if prop == 'C05':
        return bool(c.get('c05_postponed_admission') or c.get('c05_ready_task_without_machine'))
    if prop == 'C06':
        return c.get('c06_activations', 0) >= 1
    if prop == 'C07':
        return c.get('c07_two_resident', 0) >= 1 or c.get('c07_overrate_rejections', 0) >= 1
    if prop == 'C08':
        return c.get('c08_admissions', 0) >= 1 and c.get('c08_refused', 0) >= 1
    if prop == 'C09':
        return c.get('c09_two_live', 0) >= 1 and c.get('c08_checks', 0) >= 1
    if prop == 'C12':
        return c.get('c12_two_ingests', 0) >= 1
    if prop == 'C13':
        return c.get('c13_observations', 0) >= 2
    if prop == 'C15':
        return c.get('c15_delayed_activations', 0) >= 1
    if prop == 'C17':
        return c.get('c17_waits', 0) >= 1
    if prop == 'C18':
        return c.get('c18_moves', 0) + c.get('c18_refused_moves', 0) >= 1
    if prop == 'C19':
        return c.get('c19_evals_running', 0) >= 1 and c.get('c19_quiescent_states', 0) >= 1
    return True


# ----------------------------------------------------------------------
# all jobs of a check

def all_jobs(prop, tier, seed, scale=1.0):
    jobs = []
    q = tier == 'quick'

    def n_(a, b):
        return max(1, int((a if q else b) * scale))
    if prop in SIM_PLANS:
        jobs += sim_jobs(prop, tier, seed, scale)
    if prop in ('C02', 'C19', 'C09'):
        from . import clusterhist
        jobs += clusterhist.jobs(prop, tier, seed, scale)
    if prop == 'C06':
        jobs += [{'kind': 'micro06', 'prop': prop, 'tier': tier, 'i': i,
                  'seed': sub_seed('micro06', tier, seed, i)} for i in range(n_(64, 640))]
    if prop == 'C14':
        jobs += [{'kind': 'plan14', 'prop': prop, 'tier': tier, 'i': i, 'n': 40,
                  'seed': sub_seed('plan14', tier, seed, i)} for i in range(n_(128, 1280))]
    if prop == 'C15':
        jobs += [{'kind': 'delay15', 'prop': prop, 'tier': tier, 'i': i,
                  'seed': sub_seed('delay15', tier, seed, i)} for i in range(n_(48, 480))]
        jobs += [{'kind': 'flag15', 'prop': prop, 'tier': tier, 'i': i,
                  'seed': sub_seed('flag15', tier, seed, i)} for i in range(n_(32, 320))]
    if prop == 'C16':
        jobs += [{'kind': 'units16', 'prop': prop, 'tier': tier, 'i': i, 'n': 24,
                  'seed': sub_seed('units16', tier, seed, i)} for i in range(n_(128, 1280))]
    if prop == 'C18':
        jobs += [{'kind': 'move18', 'prop': prop, 'tier': tier, 'i': i, 'n': 80,
                  'seed': sub_seed('move18', tier, seed, i)} for i in range(n_(128, 1280))]
    if prop == 'C10':
        jobs += [{'kind': 'hashdiff', 'prop': prop, 'tier': tier, 'i': i, 'n': 8,
                  'H': 4 if q else 12,
                  'seed': sub_seed('hashdiff', tier, seed, i)} for i in range(n_(24, 128))]
    if prop in ('C13', 'C12'):
        jobs += [{'kind': 'pause', 'prop': prop, 'tier': tier, 'i': i,
                  'seed': sub_seed('pause13', tier, seed, i)} for i in range(n_(96, 960))]
    if prop == 'C11':
        jobs += [{'kind': 'pause', 'prop': prop, 'tier': tier, 'i': i,
                  'seed': sub_seed('pause', tier, seed, i)} for i in range(n_(240, 1200))]
        jobs += [{'kind': 'refusal', 'prop': prop, 'tier': tier, 'i': i,
                  'seed': sub_seed('refusal', tier, seed, i)} for i in range(n_(32, 160))]
    # interleave kinds so every shard gets a mix
    jobs.sort(key=lambda j: sub_seed('order', j['kind'], j['i']))
    return jobs


def minima(prop, tier, scale=1.0):
    """Deciding-monitor counters that must be reached, else the run is
    inconclusive (exit 2).  Chosen from measured values with a wide margin."""
    base = MINIMA.get(prop, {})
    # the table holds about a third of the measured values; a tenth of the measured value is
    # what is required (reach of the monitors, not the behaviour of the code under test)
    f = (1.0 if tier == 'quick' else 8.0) * scale * 0.3
    return {k: max(1, int(v * f)) for k, v in base.items()}


# measured on the unchanged tree (seed 0, quick) and set to roughly a third of that
MINIMA = {
    'C01': {'c01_activations': 7000, 'c01_busy_proposals': 1200, 'c01_adversarial_rewrites': 600,
            'c01_evals': 200000, '_nontrivial': 300},
    'C02': {'c02_partition_evals': 140000, 'c02_refused_calls': 5000, 'c02_ops_checked': 10000,
            'c02_counter_evals': 30000, 'c02_final_evals': 200, '_nontrivial': 1500},
    'C03': {'c03_edges': 4000, 'c03_positive_waits': 600, 'c03_starts': 6000, '_nontrivial': 150},
    'C04': {'c04_completed_runs': 400, 'c04_tasks': 7000, '_nontrivial': 250},
    'C05': {'c05_runs': 400, '_nontrivial': 300},
    'C06': {'c06_activations': 3000, 'c06_substep_activations': 700, 'c06_ingest_activations': 1000,
            'c06_monotone_pairs': 1000},
    'C07': {'c07_evals': 200000, 'c07_deposits': 6000, 'c07_frees': 1200,
            'c07_overrate_rejections': 50, '_nontrivial': 350},
    'C08': {'c08_admissions': 1500, 'c08_refused': 4000, 'c08_idle_and_due': 400,
            'c08_ingest_activations': 2500, '_nontrivial': 300},
    'C09': {'c09_reservations': 1500, 'c09_owned_allocations': 6000, 'c09_count_evals': 250000,
            'c09_release_checks': 1500, '_nontrivial': 200},
    'C10': {'c10_cross_process_comparisons': 100, '_nontrivial': 20},
    'C11': {'c11_paused_runs': 400, 'c11_pause_after_event_step': 200, 'c11_refusal_runs': 10},
    'C12': {'c12_rows': 20000, '_nontrivial': 40},
    'C13': {'c13_observations': 1500, 'c13_entries_checked': 12000},
    'C14': {'c14_plans': 1500, 'c14_queries': 10000},
    'C15': {'c15_direct_calls': 14000, 'c15_delayed_activations': 2000, 'c15_status_rows': 7000},
    'C16': {'c16_configs_parsed': 7000, 'c16_equivalence_checks': 3000},
    'C17': {'c17_activations': 7000, 'c17_waits': 3000, '_nontrivial': 400},
    'C18': {'c18_moves': 3000, 'c18_move_steps': 30000, 'c18_refused_moves': 1000},
    'C19': {'c19_evals': 170000, 'c19_evals_running': 120000, 'c19_quiescent_states': 600},
}

RULES = {
    'C01': 'generated simulation cases (strata contend/simul/zero/benign x 4 pairings x fixed delays x skippable/rejectable adversaries; thorough adds tie permutation of allocation processes); non-trivial = at least one machine reused by >=2 tasks AND >=2 machines executing concurrently (measured from do_work activations); distinct = hash of the generated case',
    'C02': 'direct operation histories on a bare Cluster (exhaustive to the stated depth on 2-3 machines, plus random sequences to depth 12 on 1-4 machines) and simulation trajectories; non-trivial = the history/run visited >=3 of the 4 machine states (available, ingest, occupied, reserved-idle); distinct = hash of the operation sequence / case',
    'C03': 'generated simulation cases without adversary; non-trivial = >=1 cross-machine edge whose transfer wait was actually positive AND >=1 same-machine edge',
    'C04': 'generated simulation cases incl. skippable adversaries; non-trivial = run completed and >=2 workflows overlapped in time',
    'C05': 'feasible generated cases run under the logical watchdog at the serial bound; non-trivial = >=1 postponed admission or >=1 round in which a ready task found no machine',
    'C06': 'micro-harness grid on the real Task.do_work (boundaries of compute/data around multiples of speed/bandwidth, unit multipliers, extras) + every activation of a simulation campaign; non-trivial = grid line executed / >=1 workflow activation checked',
    'C07': 'generated simulation cases (benign/units/tight/simul, 12% with an observation above the hot ingest-rate limit); non-trivial = >=2 observations resident in the hot buffer at once, or an over-rate rejection observed',
    'C08': 'generated simulation cases weighted to simultaneous / contended / refused admissions; non-trivial = >=1 admission AND >=1 refused capacity check in the run',
    'C09': 'BatchPlanning x BatchProcessing cases (partitions 1-4, minimum 0-4, resource_split, foreign-machine adversary, tie permutation in thorough); non-trivial = >=2 reservations alive at once while an ingest capacity check took place',
    'C10': 'each case run twice in-process and once in each of H fresh interpreters with different PYTHONHASHSEED; non-trivial = the ready frontier exceeded the machines on offer in >=1 scheduling round (measured at the algorithm call)',
    'C11': 'reference run vs start(k)+resume(...) for 6 pause points (quick) or every k<=T (thorough, T<=40) with random resume splits; plus refusal runs; non-trivial = reference run completed with T>=3',
    'C12': 'generated simulation cases; every monitor row compared with the boundary snapshot of the shadow bookkeeping; non-trivial = >=2 ingests overlapping in time with different end times',
    'C13': 'generated simulation cases; monitor.events checked against wrapper ground truth per observation; non-trivial = >=2 observations with life cycles in the run',
    'C14': 'real Planner.run + BatchPlanning on generated DAGs (1-40 nodes, shuffled / non-contiguous ids, names with digits and underscores, int and float clocks); non-trivial = DAG has >=1 edge',
    'C15': 'direct grid on DelayModel.generate_delay (3 distributions x 4 degrees x 5 probabilities x seeds x runtimes incl. 0), flag harness on Task.do_work, and simulations with injected fixed extras; non-trivial = parameter point evaluated / >=1 delayed activation in the run',
    'C16': 'one physical configuration written in 7 unit spellings and parsed by the real Config; non-trivial = configuration evaluated under all 7 spellings',
    'C17': 'StaticListPlanning x DynamicSchedulingFromPlan cases with contention; non-trivial = >=1 task had to wait >=1 step for its planned machine (measured)',
    'C18': 'direct harness on Buffer.move_hot_to_cold / move_cold_to_hot (sizes 1-60, rates 1-12, both directions, round trips, refused moves) + tight-buffer simulations; non-trivial = move (or refusal) executed',
    'C19': 'all four idleness queries + is_finished evaluated after every SimPy event of a simulation campaign and after every operation of the cluster histories; non-trivial = run had states with a running task AND quiescent states',
}

ASSUMPTIONS = {
    'C01': ['adversarial algorithms only rewrite machines of allocations the shipped algorithm made (or re-propose finished tasks); they never propose a task whose predecessors are unfinished',
            'under tie permutation only order-insensitive safety clauses are judged'],
    'C03': ['allocation time of a task = simulated time at which Task.do_work was entered'],
    'C05': ['the serial bound uses L=4 steps of per-step latency per task/observation (DESIGN section 4, C05)',
            'known findings K1a/K1b (hot-buffer tiering) are matched by mechanism and reported as KNOWN-FINDING'],
    'C06': ['for sub-step work with an injected extra k both max(1,work)+k and max(1,work+k) are accepted'],
    'C10': ['the config path column is identical across runs because every run of a case uses the same work directory'],
    'C12': ['a task counts as running from the event in which Cluster.allocate_task_to_cluster registers it until the event in which that process returns (the repository\'s documented off-by-one convention)'],
    'C15': ['poisson/uniform TypeErrors are known findings K2a/K2b'],
}
COMMON_ASSUMPTIONS = [
    'cases are drawn inside the bounds of DESIGN.md section 3.3 (<=8 machines, <=5 observations, '
    '<=12-node DAGs, horizon <= the serial bound or 150 steps)',
    'wrappers only observe; ground truth comes from the generated case and the harness shadow '
    'bookkeeping, private topsim state is read through vt/probe.py only',
    'workers run /repo working tree with PYTHONHASHSEED=0 (except the C10 children)',
]


def extra_evidence(prop, merged):
    out = {}
    if prop in ('C02', 'C19', 'C09'):
        out['exhaustive_subspace'] = (
            'cluster operation histories: every sequence over the 24-letter alphabet of '
            'vt/clusterhist.alphabet() to depth 3 on 2 machines (13 824 sequences) in the quick '
            'tier; C02 thorough: depth 4 on 2 machines (331 776) and depth 3 on 3 machines; the '
            'random histories and the simulation trajectories are sampled, so the check as a '
            'whole is not exhaustive')
        out['history_jobs'] = int(merged['kinds'].get('hist', 0))
    if prop == 'C11':
        out['exhaustive_subspace'] = ('thorough tier: every pause point k in 1..T for reference '
                                      'runs with T <= 40; quick tier: 6 pause points per case')
    return out
