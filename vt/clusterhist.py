"""C02 / C19: histories of direct operations on a bare Cluster.

Alphabet: batch provision, release, ingest provision, task allocation on a
free / own-reserved / foreign-reserved / busy / on-ingest / alien machine,
advance one step.  After every operation (and the drain of the events it
scheduled for the current instant) the real pools are compared with what the
operation may legally have done to the previous pools (order-agnostic
post-conditions); a refused call must leave them unchanged.
"""
import itertools
import json
import os
import random
import shutil

from . import gen, hooks, probe
from .common import WORK, case_hash, use_repo, ProbeUnavailable
from .campaign import sub_seed

NAMES = ('a', 'b')


def alphabet(nm):
    ops = []
    for size in (0, 1, 2, nm + 1):
        for name in NAMES:
            ops.append(('prov', size, name))
    for name in NAMES:
        ops.append(('rel', name))
    for d in sorted(set([1, 2, nm + 1])):
        ops.append(('ing', d, 2))
    for m in list(range(nm)) + ['alien']:
        for ob in (None,) + NAMES:
            ops.append(('alloc', m, ob, 2))
    ops.append(('adv',))
    return ops


def rand_op(rng, nm):
    r = rng.random()
    if r < 0.2:
        return ('prov', rng.choice([0, 1, 1, 2, nm, nm + 1]), rng.choice(NAMES))
    if r < 0.32:
        return ('rel', rng.choice(NAMES))
    if r < 0.47:
        return ('ing', rng.choice([1, 1, 2, nm, nm + 1]), rng.choice([1, 2, 3, 4]))
    if r < 0.75:
        return ('alloc', rng.choice(list(range(nm)) + ['alien']), rng.choice((None,) + NAMES),
                rng.choice([1, 2, 3, 4]))
    return ('adv',)


def jobs(prop, tier, seed, scale=1.0):
    q = tier == 'quick'
    out = []
    i = 0
    # exhaustive: all sequences to depth D on nm machines, split by first op
    deep = (not q) and prop == 'C02'
    for nm, depth in (((2, 4), (3, 3)) if deep else ((2, 3),)):
        na = len(alphabet(nm))
        prefixes = [[a] for a in range(na)] if depth <= 3 else \
            [[a, b] for a in range(na) for b in range(na)]
        for pre in prefixes:
            out.append({'kind': 'hist', 'prop': prop, 'tier': tier, 'i': i, 'mode': 'exh',
                        'nm': nm, 'depth': depth, 'prefix': pre, 'seed': 0})
            i += 1
    nr = max(1, int((100 if q else 1000) * scale))
    for k in range(nr):
        out.append({'kind': 'hist', 'prop': prop, 'tier': tier, 'i': i, 'mode': 'rand',
                    'n': 20, 'seed': sub_seed('hist', tier, seed, k)})
        i += 1
    return out


class Driver:
    """One bare cluster + the bookkeeping the post-conditions need."""

    def __init__(self, nm, cfgpath):
        import simpy
        from topsim.core.config import Config
        from topsim.core.cluster import Cluster
        self.env = simpy.Environment()
        self.cluster = Cluster(self.env, Config(cfgpath))
        self.nm = nm
        self.ids = sorted(m.id for m in self.cluster.machines)
        self.tasks = {}          # machine id -> {'task', 'start', 'dur', 'obs', 'ingest'}
        self.n_finished = 0
        self.ntask = 0
        self.viol = []
        self.cnt = {}
        self.states = set()

    def bump(self, k, n=1):
        self.cnt[k] = self.cnt.get(k, 0) + n

    def violate(self, prop, clause, **d):
        d.update(prop=prop, clause=clause, t=self.env.now)
        self.viol.append(d)

    def drain(self):
        env = self.env
        while env._queue and env.peek() == env.now:
            env.step()

    def snap(self):
        return probe.pools(self.cluster)

    # ---- operations -------------------------------------------------
    def apply(self, op, last=False):
        from topsim.core.task import Task
        from topsim.core.instrument import Observation
        from topsim.core.machine import Machine
        env, cl = self.env, self.cluster
        before = self.snap()
        raised = None
        kind = op[0]
        info = {}
        try:
            if kind == 'prov':
                info['n0'] = getattr(cl, 'num_provisioned_obs', None)
                cl.provision_batch_resources(op[1], op[2])
            elif kind == 'rel':
                cl.release_batch_resources(op[1])
            elif kind == 'ing':
                self.ntask += 1
                ob = Observation('ing%d' % self.ntask, 0, op[2], 1, None, 1)
                info['obs'] = ob
                env.process(cl.provision_ingest_resources(op[1], ob))
                self.drain()
            elif kind == 'alloc':
                self.ntask += 1
                if op[1] == 'alien':
                    m = Machine('alien', 5, 1, 1, 5)
                else:
                    m = cl.machines[op[1]]
                t = Task('t_%d' % self.ntask, 0, op[3], m.id, [], 0, 0, 0, None)
                info['task'] = t
                info['machine'] = m
                env.process(cl.allocate_task_to_cluster(t, m, None, op[2]))
                self.drain()
            elif kind == 'adv':
                env.run(until=env.now + 1)
                self.drain()
        except Exception as e:   # a refused call
            raised = e
        after = self.snap()
        n0 = len(self.viol)
        self.post(op, before, after, raised, info)
        if any(v['clause'] == 'illegal_allocation_accepted' for v in self.viol[n0:]):
            return raised     # the model is meaningless from here on; the sequence stops
        self.invariants(after, counters=(kind == 'adv' or last))
        return raised

    # ---- oracles ------------------------------------------------------
    def invariants(self, p, counters=True):
        allm = p['available'] + p['ingest'] + p['occupied']
        for v in p['idle'].values():
            allm = allm + v
        self.bump('c02_partition_evals')
        if sorted(allm) != self.ids:
            self.violate('C02', 'partition', pools=hooks._pools_json(p), op='history')
        busy = set(p['ingest']) | set(p['occupied'])
        for mid in self.tasks:
            if mid not in busy:
                self.violate('C02', 'running_machine_not_busy', machine=mid, op='history')
        if not counters:
            self._c19(p)
            return
        # counters (to_df) at this quiescent point
        row = probe.cluster_row(self.cluster)
        true = {'available_resources': self.nm - len(self.tasks),
                'running_tasks': len(self.tasks),
                'finished_tasks': self.n_finished,
                'provisioned_observations': len(p['idle'])}
        for k, v in true.items():
            if k in row and int(row[k]) != v:
                self.violate('C02', 'counter_' + k, reported=int(row[k]), true=v, op='history')
        self.bump('c02_counter_evals')
        self._c19(p)

    def _c19(self, p):
        # C19: idle query
        idle = self.cluster.is_idle()
        self.bump('c19_evals')
        if self.tasks:
            self.bump('c19_evals_running')
        if idle and self.tasks:
            self.violate('C19', 'cluster_idle_while_running',
                         running=[t['task'] for t in self.tasks.values()][:4],
                         n_ingest_pool=len(p['ingest']), n_occupied=len(p['occupied']))
        after2 = self.snap()
        if probe.pools_key(after2) != probe.pools_key(p):
            self.violate('C19', 'query_not_pure', op='history')
        st = (len(p['available']), len(p['ingest']), len(p['occupied']),
              tuple(sorted(len(v) for v in p['idle'].values())))
        self.states.add(st)

    def unchanged(self, op, before, after, why, raised):
        self.bump('c02_refused_calls')
        if probe.pools_key(before) != probe.pools_key(after):
            self.violate('C02', 'refused_call_changed_pools', op=op[0], reason=why,
                         before=hooks._pools_json(before), after=hooks._pools_json(after),
                         raised=type(raised).__name__ if raised else None)

    def post(self, op, b, a, raised, info):
        kind = op[0]
        now = self.env.now
        A = set(b['available'])
        if kind == 'prov':
            size, name = op[1], op[2]
            if size > 0 and not A:
                # nothing to reserve: refused (whatever way) and unchanged
                self.unchanged(op, b, a, 'no machine available', raised)
                return
            k = min(size, len(A))
            n1 = getattr(self.cluster, 'num_provisioned_obs', None)
            if k == 0 and n1 is not None and info.get('n0') is not None and n1 != info['n0']:
                self.violate('C02', 'empty_reservation_counted', op='prov', before=info['n0'],
                             after=n1)
            moved = A - set(a['available'])
            exp_idle = sorted(b['idle'].get(name, []) + sorted(moved))
            ok = (raised is None and len(moved) == k and set(a['available']) <= A
                  and sorted(a['idle'].get(name, [])) == exp_idle
                  and sorted(a['ingest']) == sorted(b['ingest'])
                  and sorted(a['occupied']) == sorted(b['occupied'])
                  and all(sorted(a['idle'].get(o, [])) == sorted(v)
                          for o, v in b['idle'].items() if o != name))
            if not ok:
                self.violate('C02', 'batch_provision_postcondition', op='prov', size=size,
                             before=hooks._pools_json(b), after=hooks._pools_json(a),
                             raised=type(raised).__name__ if raised else None)
            self.bump('c02_ops_checked')
        elif kind == 'rel':
            name = op[1]
            back = b['idle'].get(name, [])
            ok = (raised is None and sorted(a['available']) == sorted(b['available'] + back)
                  and sorted(a['ingest']) == sorted(b['ingest'])
                  and sorted(a['occupied']) == sorted(b['occupied'])
                  and not a['idle'].get(name)
                  and all(sorted(a['idle'].get(o, [])) == sorted(v)
                          for o, v in b['idle'].items() if o != name))
            if not ok:
                self.violate('C02', 'release_postcondition', op='rel',
                             before=hooks._pools_json(b), after=hooks._pools_json(a),
                             raised=type(raised).__name__ if raised else None)
            self.bump('c02_ops_checked')
        elif kind == 'ing':
            d, dur = op[1], op[2]
            if d > len(A):
                if raised is None:
                    self.violate('C02', 'ingest_overdemand_accepted', op='ing', demand=d,
                                 available=len(A))
                self.unchanged(op, b, a, 'ingest demand above available machines', raised)
                return
            moved = A - set(a['available'])
            ok = (raised is None and len(moved) == d
                  and sorted(a['ingest']) == sorted(b['ingest'] + sorted(moved))
                  and sorted(a['occupied']) == sorted(b['occupied'])
                  and probe.pools_key({'available': [], 'ingest': [], 'occupied': [],
                                       'idle': a['idle']}) ==
                  probe.pools_key({'available': [], 'ingest': [], 'occupied': [],
                                   'idle': b['idle']}))
            if not ok:
                self.violate('C02', 'ingest_provision_postcondition', op='ing', demand=d,
                             before=hooks._pools_json(b), after=hooks._pools_json(a),
                             raised=type(raised).__name__ if raised else None)
            else:
                for mid in moved:
                    self.tasks[mid] = {'task': 'ingest', 'start': now, 'dur': dur, 'obs': None,
                                       'ingest': True}
            self.bump('c02_ops_checked')
        elif kind == 'alloc':
            m, ob, dur = info['machine'], op[2], op[3]
            mid = m.id
            if mid in A:
                state = 'free'
            elif mid in b['ingest']:
                state = 'on_ingest'
            elif mid in b['occupied']:
                state = 'busy'
            elif ob is not None and mid in b['idle'].get(ob, []):
                state = 'own_reserved'
            elif any(mid in v for v in b['idle'].values()):
                state = 'foreign_reserved'
            else:
                state = 'alien'
            self.bump('c02_alloc_' + state)
            legal = state in ('free', 'own_reserved')
            if not legal:
                if raised is None:
                    self.violate('C02', 'illegal_allocation_accepted', op='alloc',
                                 machine_state=state, before=hooks._pools_json(b),
                                 after=hooks._pools_json(a))
                    self.violate('C01', 'illegal_proposal_executed', op='alloc',
                                 machine_state=state, machine=mid)
                    if state == 'foreign_reserved':
                        self.violate('C09', 'ran_on_foreign_reservation', op='alloc',
                                     machine_state=state, machine=mid)
                    # keep the model usable: the machine now carries a second task
                else:
                    self.unchanged(op, b, a, 'allocation on %s machine' % state, raised)
                return
            exp_av = sorted(x for x in b['available'] if x != mid)
            exp_idle = {o: sorted(x for x in v if not (o == ob and x == mid))
                        for o, v in b['idle'].items()}
            ok = (raised is None and sorted(a['available']) == exp_av
                  and sorted(a['occupied']) == sorted(b['occupied'] + [mid])
                  and sorted(a['ingest']) == sorted(b['ingest'])
                  and {o: sorted(v) for o, v in a['idle'].items()} == exp_idle)
            if not ok:
                self.violate('C02', 'allocation_postcondition', op='alloc', machine_state=state,
                             before=hooks._pools_json(b), after=hooks._pools_json(a),
                             raised=type(raised).__name__ if raised else None)
            else:
                self.tasks[mid] = {'task': info['task'].id, 'start': now, 'dur': dur, 'obs': ob,
                                   'ingest': False}
            self.bump('c02_ops_checked')
        elif kind == 'adv':
            if raised is not None:
                self.violate('C02', 'advance_raised', op='adv', raised=type(raised).__name__,
                             msg=str(raised)[:100])
                return
            now = self.env.now
            busy_after = set(a['ingest']) | set(a['occupied'])
            for mid, t in list(self.tasks.items()):
                aft = t['start'] + t['dur']
                if mid in busy_after:
                    if now > aft + 1e-9:
                        self.violate('C02', 'machine_not_released', op='adv', machine=mid,
                                     aft=aft, now=now)
                    continue
                if now < aft - 1 - 1e-9:
                    self.violate('C02', 'machine_released_early', op='adv', machine=mid,
                                 aft=aft, now=now)
                # where must it be now?
                ob = t['obs']
                if (not t['ingest']) and ob is not None and ob in b['idle']:
                    ok = mid in a['idle'].get(ob, [])
                    where = 'reservation of ' + str(ob)
                else:
                    ok = mid in a['available']
                    where = 'available'
                if not ok:
                    self.violate('C02', 'released_machine_in_wrong_pool', op='adv', machine=mid,
                                 expected=where, after=hooks._pools_json(a))
                del self.tasks[mid]
                self.n_finished += 1
                self.bump('c02_releases_checked')
            self.bump('c02_ops_checked')


def _cfg(nm, d):
    case = {'machines': [{'id': 'm%d' % i, 'flops': 5, 'bw': 5} for i in range(nm)],
            'system_bandwidth': 1, 'telescope': {'total_arrays': 1, 'max_ingest': nm},
            'observations': [], 'timestep': 'seconds',
            'buffer': {'hot': {'capacity': 10, 'max_ingest_rate': 1},
                       'cold': {'capacity': 10, 'max_data_rate': 1}}}
    return gen.materialise(case, d)


def run_sequence(nm, ops, cfgpath):
    drv = Driver(nm, cfgpath)
    drv.invariants(drv.snap())
    for k, op in enumerate(ops):
        drv.apply(op, last=(k == len(ops) - 1))
        if any(v['clause'] in ('illegal_allocation_accepted', 'partition') for v in drv.viol):
            break       # the model is no longer meaningful after an accepted illegal call
    return drv


def run_job(job, prop, case=None):
    use_repo()
    d = os.path.join(WORK, 'h%d_%d' % (os.getpid(), job['i']))
    os.makedirs(d, exist_ok=True)
    out = {'hash': case_hash(job), 'case': None, 'viol': [], 'cnt': {}, 'inconclusive': [],
           'nontrivial': False, 'events': 0, 'outcome': 'history', 'evaluations': 0,
           'extra_nontrivial': [], 'states': set()}
    try:
        seqs = []
        if case is not None:
            seqs = [(case['nm'], [tuple(o) for o in case['ops']])]
        elif job['mode'] == 'exh':
            nm = job['nm']
            al = alphabet(nm)
            pre = [al[k] for k in job['prefix']]
            for rest in itertools.product(al, repeat=job['depth'] - len(pre)):
                seqs.append((nm, pre + list(rest)))
        else:
            rng = random.Random(job['seed'])
            for _ in range(job['n']):
                nm = rng.choice([1, 2, 3, 4])
                seqs.append((nm, [rand_op(rng, nm) for _ in range(rng.randint(3, 12))]))
        cfgs = {}
        seen_mech = {}
        for nm, ops in seqs:
            if nm not in cfgs:
                cfgs[nm] = _cfg(nm, os.path.join(d, 'n%d' % nm))
            try:
                drv = run_sequence(nm, ops, cfgs[nm])
            except ProbeUnavailable as e:
                out['inconclusive'].append('probe: %s' % e)
                continue
            out['evaluations'] += 1
            out['events'] += len(ops)
            for k, v in drv.cnt.items():
                out['cnt'][k] = out['cnt'].get(k, 0) + v
            out['states'].update(drv.states)
            kinds = set()
            for s in drv.states:
                if s[0]:
                    kinds.add('a')
                if s[1]:
                    kinds.add('i')
                if s[2]:
                    kinds.add('o')
                if any(x > 0 for x in s[3]):
                    kinds.add('r')
            h = case_hash({'nm': nm, 'ops': ops})
            if len(kinds) >= 3:
                out['extra_nontrivial'].append(h)
            wit = {'kind': 'hist', 'nm': nm, 'ops': [list(o) for o in ops]}
            if out['case'] is None:
                out['case'] = wit
            for v in drv.viol:
                if v['prop'] != prop:
                    continue
                key = (v['clause'], v.get('machine_state'), v.get('op'))
                seen_mech[key] = seen_mech.get(key, 0) + 1
                if seen_mech[key] <= 2:
                    v = dict(v)
                    v['history'] = wit
                    out['viol'].append(v)
                else:
                    out['cnt']['suppressed_duplicate_witnesses'] = \
                        out['cnt'].get('suppressed_duplicate_witnesses', 0) + 1
        if out['viol']:
            out['witness'] = out['viol'][0].get('history')
        out['nontrivial'] = bool(out['extra_nontrivial'])
        out['sample'] = out['case']
    finally:
        shutil.rmtree(d, ignore_errors=True)
    return out
