"""Anchor coverage: which lines of the functions a property is anchored in were
actually executed by a worker.  Evidence of reach, never a verdict.

sys.monitoring (3.12) LINE events, enabled only on the code objects of the
anchored functions and DISABLEd per location after the first hit, so the
overhead is negligible."""
import sys

TOOL = 3   # an unused tool id

ANCHORS = {
    'C01': ['topsim.core.scheduler:Scheduler._process_current_schedule',
            'topsim.core.cluster:Cluster.allocate_task_to_cluster',
            'topsim.core.cluster:Cluster.provision_ingest_resources',
            'topsim.core.task:Task.do_work'],
    'C02': ['topsim.core.cluster:Cluster._set_machine_occupied',
            'topsim.core.cluster:Cluster._set_machine_available',
            'topsim.core.cluster:Cluster._add_idle_resource',
            'topsim.core.cluster:Cluster.release_batch_resources',
            'topsim.core.cluster:Cluster._reset_idle_resources',
            'topsim.core.cluster:Cluster.provision_batch_resources',
            'topsim.core.cluster:Cluster.allocate_task_to_cluster',
            'topsim.core.cluster:Cluster.to_df'],
    'C03': ['topsim.core.task:Task._wait_for_transfer',
            'topsim.core.scheduler:Scheduler._find_pred_allocations',
            'topsim.user.schedule.batch_allocation:BatchProcessing.run',
            'topsim.user.schedule.queue_allocation:QueueProcessing.run',
            'topsim.user.schedule.dynamic_plan:DynamicSchedulingFromPlan.run',
            'topsim.user.schedule.greedy:GreedySchedulingFromPlan.run'],
    'C04': ['topsim.core.simulation:Simulation.start', 'topsim.core.simulation:Simulation.is_finished',
            'topsim.core.scheduler:Scheduler._update_current_plan',
            'topsim.core.scheduler:Scheduler._generate_current_schedule',
            'topsim.core.buffer:HotBuffer.next_observation_for_processing'],
    'C05': ['topsim.core.scheduler:Scheduler.check_ingest_capacity',
            'topsim.core.scheduler:Scheduler.allocate_ingest',
            'topsim.core.buffer:Buffer.run', 'topsim.core.buffer:Buffer.check_buffer_capacity',
            'topsim.user.schedule.batch_allocation:BatchProcessing._provision_resources',
            'topsim.user.schedule.batch_allocation:BatchProcessing._max_resource_provision'],
    'C06': ['topsim.core.task:Task.do_work', 'topsim.core.task:Task.calculate_runtime',
            'topsim.core.cluster:Cluster._generate_ingest_tasks'],
    'C07': ['topsim.core.buffer:Buffer.ingest_data_stream',
            'topsim.core.buffer:HotBuffer.process_incoming_data_stream',
            'topsim.core.buffer:HotBuffer.remove', 'topsim.core.buffer:Buffer.check_buffer_capacity',
            'topsim.core.buffer:Buffer.mark_observation_finished'],
    'C08': ['topsim.user.telescope:Telescope.run', 'topsim.core.instrument:Observation.is_ready',
            'topsim.core.instrument:Observation.is_finished',
            'topsim.core.cluster:Cluster.check_ingest_capacity',
            'topsim.core.scheduler:Scheduler.check_ingest_capacity',
            'topsim.core.scheduler:Scheduler.allocate_ingest'],
    'C09': ['topsim.user.schedule.batch_allocation:BatchProcessing.run',
            'topsim.user.schedule.batch_allocation:BatchProcessing._provision_resources',
            'topsim.user.schedule.batch_allocation:BatchProcessing._max_resource_provision',
            'topsim.core.cluster:Cluster.provision_batch_resources',
            'topsim.core.cluster:Cluster.release_batch_resources',
            'topsim.core.cluster:Cluster._set_machine_available'],
    'C10': ['topsim.core.task:Task.__hash__', 'topsim.core.delay:DelayModel.generate_delay',
            'topsim.user.schedule.batch_allocation:BatchProcessing.run',
            'topsim.user.schedule.queue_allocation:QueueProcessing.run',
            'topsim.user.schedule.dynamic_plan:DynamicSchedulingFromPlan.run'],
    'C11': ['topsim.core.simulation:Simulation.start', 'topsim.core.simulation:Simulation.resume',
            'topsim.core.monitor:Monitor.collate_events'],
    'C12': ['topsim.core.monitor:Monitor.run', 'topsim.core.cluster:Cluster.to_df',
            'topsim.core.cluster:Cluster.run', 'topsim.core.buffer:Buffer.to_df',
            'topsim.core.scheduler:Scheduler.to_df', 'topsim.user.telescope:Telescope.to_df'],
    'C13': ['topsim.core.monitor:Monitor.collate_events', 'topsim.core.buffer:Buffer._add_event',
            'topsim.core.scheduler:Scheduler._add_event',
            'topsim.user.telescope:Telescope._add_event'],
    'C14': ['topsim.user.plan.batch_planning:BatchPlanning.generate_plan',
            'topsim.core.planner:WorkflowPlan.get_task_predecessors',
            'topsim.core.planner:WorkflowPlan.get_task_successors'],
    'C15': ['topsim.core.delay:DelayModel.generate_delay',
            'topsim.core.delay:DelayModel._create_random_value_from_runtime',
            'topsim.core.task:Task.do_work',
            'topsim.core.scheduler:Scheduler._update_current_plan'],
    'C16': ['topsim.core.config:Config.parse_cluster_config',
            'topsim.core.config:Config.parse_instrument_config',
            'topsim.core.config:Config.parse_buffer_config'],
    'C17': ['topsim.user.schedule.dynamic_plan:DynamicSchedulingFromPlan.run',
            'topsim.core.scheduler:Scheduler._process_current_schedule',
            'topsim.core.task:Task.update_allocation'],
    'C18': ['topsim.core.buffer:Buffer.move_hot_to_cold', 'topsim.core.buffer:Buffer.move_cold_to_hot',
            'topsim.core.buffer:HotBuffer.transfer_observation',
            'topsim.core.buffer:HotBuffer.receive_observation',
            'topsim.core.buffer:ColdBuffer.transfer_observation',
            'topsim.core.buffer:ColdBuffer.receive_observation'],
    'C19': ['topsim.core.cluster:Cluster.is_idle', 'topsim.core.buffer:Buffer.is_empty',
            'topsim.core.scheduler:Scheduler.is_idle', 'topsim.user.telescope:Telescope.is_idle',
            'topsim.core.simulation:Simulation.is_finished'],
}

_codes = {}     # code object -> name
_hits = {}      # code object -> set(lines)


def _resolve(spec):
    import importlib
    mod, qual = spec.split(':')
    obj = importlib.import_module(mod)
    for part in qual.split('.'):
        obj = obj.__dict__[part] if isinstance(obj, type) else getattr(obj, part)
    while hasattr(obj, '__wrapped__'):
        obj = obj.__wrapped__
    if isinstance(obj, (staticmethod, classmethod)):
        obj = obj.__func__
    return getattr(obj, '__code__', None)


def start(prop):
    mon = getattr(sys, 'monitoring', None)
    if mon is None:
        return False
    try:
        mon.use_tool_id(TOOL, 'vt-anchor-coverage')
    except ValueError:
        return False

    def on_line(code, line):
        h = _hits.get(code)
        if h is not None:
            h.add(line)
        return mon.DISABLE
    mon.register_callback(TOOL, mon.events.LINE, on_line)
    for spec in ANCHORS.get(prop, []):
        try:
            code = _resolve(spec)
        except Exception:
            code = None
        if code is None:
            continue
        _codes[code] = spec.split(':')[1]
        _hits[code] = set()
        mon.set_local_events(TOOL, code, mon.events.LINE)
    return True


def report():
    out = {}
    for code, name in _codes.items():
        lines = set(l for (_, _, l) in code.co_lines() if l is not None and l != code.co_firstlineno)
        if not lines:
            continue
        hit = _hits[code] & lines
        out[name] = {'executed': sorted(hit), 'total': sorted(lines)}
    return out
