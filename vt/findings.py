"""Known findings: committed file, never written at run time.

An entry is matched by *mechanism* - property, oracle clause and a fixed set
of boolean/string fields the oracle itself produced (exception type,
innermost topsim function, state predicates).  Never a seed, a case hash or
a generated value."""
import json
import os

from .common import VERIF

PATH = os.path.join(VERIF, 'known_findings.json')

# detail keys that may be part of a mechanism
MECH_KEYS = ('exc', 'func', 'file', 'kind', 'direction', 'hot_slower', 'zero_work', 'substep',
             'started_at_zero', 'two_ingests_overlap', 'dist', 'runtime_zero', 'op',
             'machine_state', 'ingest', 'column', 'paused', 'stage', 'reason', 'pairing_family',
             'below_zero', 'admissions_had_room', 'ingests_overlapped', 'deposits_as_specified',
             'capacities_unchanged', 'lists_unchanged', 'transfer_markers_unchanged',
             'concurrent_move_in_flight')


def load():
    if not os.path.exists(PATH):
        return []
    with open(PATH) as f:
        data = json.load(f)
    return data.get('findings', [])


def mech(v):
    m = {'property': v['prop'], 'clause': v['clause']}
    for k in MECH_KEYS:
        if k in v and isinstance(v[k], (bool, str, type(None))):
            m[k] = v[k]
    pr = v.get('predicates')
    if isinstance(pr, dict):
        for k, val in pr.items():
            m['predicates.' + k] = val
    return m


def mech_key(v):
    m = mech(v)
    return json.dumps(m, sort_keys=True)


def classify(v, entries):
    """-> the 'known' entry that covers this violation, or None."""
    m = mech(v)
    for e in entries:
        if e.get('status') != 'known':
            continue
        if e.get('property') != m['property'] or e.get('clause') != m['clause']:
            continue
        ok = True
        for k, val in (e.get('match') or {}).items():
            if m.get(k, '<absent>') != val:
                ok = False
                break
        if ok:
            return e
    return None
